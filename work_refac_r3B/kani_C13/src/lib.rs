#![allow(dead_code, unused_imports, unused_variables, unused_mut, static_mut_refs, non_snake_case, non_upper_case_globals, unused_unsafe, overflowing_literals, clippy::all)]
use nutype::nutype;
#[derive(Debug, Clone, Copy, PartialEq, Eq)]
pub enum MyErr { Bad, Worse }
impl ::core::fmt::Display for MyErr { fn fmt(&self, f: &mut ::core::fmt::Formatter<'_>) -> ::core::fmt::Result { write!(f, "my err") } }
impl ::core::error::Error for MyErr {}
#[derive(Debug, Clone, Copy, PartialEq)]
pub struct Probe(pub u8);
pub static mut PROBE_LOG: [u64; 8] = [0; 8];
impl ::core::fmt::Display for Probe { fn fmt(&self, f: &mut ::core::fmt::Formatter<'_>) -> ::core::fmt::Result { unsafe { PROBE_LOG[0] += 1; PROBE_LOG[1] = match f.width() { Some(w) => w as u64 + 1, None => 0 }; PROBE_LOG[2] = match f.precision() { Some(w) => w as u64 + 1, None => 0 }; PROBE_LOG[3] = (f.sign_plus() as u64) | ((f.sign_minus() as u64) << 1) | ((f.alternate() as u64) << 2) | ((f.sign_aware_zero_pad() as u64) << 3); PROBE_LOG[4] = match f.align() { None => 0, Some(::core::fmt::Alignment::Left) => 1, Some(::core::fmt::Alignment::Right) => 2, Some(::core::fmt::Alignment::Center) => 3 }; PROBE_LOG[5] = f.fill() as u64; PROBE_LOG[6] = self.0 as u64; } f.write_str("P") } }
pub struct CountWriter { pub n: usize, pub acc: u64 }
impl ::core::fmt::Write for CountWriter { fn write_str(&mut self, s: &str) -> ::core::fmt::Result { let b = s.as_bytes(); let mut i = 0; while i < b.len() && i < 4 { self.acc = self.acc * 257 + b[i] as u64; i += 1; } self.n += b.len(); Ok(()) } }
pub static mut SYM_LO_F32: f32 = 3.0;
pub fn sym_lo_f32() -> f32 { unsafe { SYM_LO_F32 } }
pub static mut SYM_HI_F32: f32 = 100.0;
pub fn sym_hi_f32() -> f32 { unsafe { SYM_HI_F32 } }
pub const fn pred_f32(x: &f32) -> bool { *x != 7.0 }
pub fn vfn_f32(x: &f32) -> Result<(), MyErr> { if *x != 7.0 { Ok(()) } else { Err(MyErr::Bad) } }
pub const fn san_f32(x: f32) -> f32 { if x < 0.0 { -x } else { x } }
pub fn san3_f32(x: f32) -> f32 { x / (2 as f32) + (10 as f32) }
pub static mut SYM_LO_F64: f64 = 3.0;
pub fn sym_lo_f64() -> f64 { unsafe { SYM_LO_F64 } }
pub static mut SYM_HI_F64: f64 = 100.0;
pub fn sym_hi_f64() -> f64 { unsafe { SYM_HI_F64 } }
pub const fn pred_f64(x: &f64) -> bool { *x != 7.0 }
pub fn vfn_f64(x: &f64) -> Result<(), MyErr> { if *x != 7.0 { Ok(()) } else { Err(MyErr::Bad) } }
pub const fn san_f64(x: f64) -> f64 { if x < 0.0 { -x } else { x } }
pub fn san3_f64(x: f64) -> f64 { x / (2 as f64) + (10 as f64) }
pub static mut SYM_LO_U8: u8 = 3;
pub fn sym_lo_u8() -> u8 { unsafe { SYM_LO_U8 } }
pub static mut SYM_HI_U8: u8 = 100;
pub fn sym_hi_u8() -> u8 { unsafe { SYM_HI_U8 } }
pub const fn san_u8(x: u8) -> u8 { if x > 50 { 50 } else { x } }
pub static mut SYM_LO_I8: i8 = 3;
pub fn sym_lo_i8() -> i8 { unsafe { SYM_LO_I8 } }
pub static mut SYM_HI_I8: i8 = 100;
pub fn sym_hi_i8() -> i8 { unsafe { SYM_HI_I8 } }
pub const fn san_i8(x: i8) -> i8 { if x > 50 { 50 } else { x } }
pub static mut SYM_LO_U16: u16 = 3;
pub fn sym_lo_u16() -> u16 { unsafe { SYM_LO_U16 } }
pub static mut SYM_HI_U16: u16 = 100;
pub fn sym_hi_u16() -> u16 { unsafe { SYM_HI_U16 } }
pub const fn san_u16(x: u16) -> u16 { if x > 50 { 50 } else { x } }
pub static mut SYM_LO_I32: i32 = 3;
pub fn sym_lo_i32() -> i32 { unsafe { SYM_LO_I32 } }
pub static mut SYM_HI_I32: i32 = 100;
pub fn sym_hi_i32() -> i32 { unsafe { SYM_HI_I32 } }
pub const fn san_i32(x: i32) -> i32 { if x > 50 { 50 } else { x } }
pub static mut SYM_LO_U64: u64 = 3;
pub fn sym_lo_u64() -> u64 { unsafe { SYM_LO_U64 } }
pub static mut SYM_HI_U64: u64 = 100;
pub fn sym_hi_u64() -> u64 { unsafe { SYM_HI_U64 } }
pub const fn san_u64(x: u64) -> u64 { if x > 50 { 50 } else { x } }
pub static mut SYM_LO_I128: i128 = 3;
pub fn sym_lo_i128() -> i128 { unsafe { SYM_LO_I128 } }
pub static mut SYM_HI_I128: i128 = 100;
pub fn sym_hi_i128() -> i128 { unsafe { SYM_HI_I128 } }
pub const fn san_i128(x: i128) -> i128 { if x > 50 { 50 } else { x } }
pub static mut SYM_LO_USIZE: usize = 3;
pub fn sym_lo_usize() -> usize { unsafe { SYM_LO_USIZE } }
pub static mut SYM_HI_USIZE: usize = 100;
pub fn sym_hi_usize() -> usize { unsafe { SYM_HI_USIZE } }
pub const fn san_usize(x: usize) -> usize { if x > 50 { 50 } else { x } }
pub fn san_arr(mut a: [i32; 3]) -> [i32; 3] { if a[0] > a[1] { let t = a[0]; a[0] = a[1]; a[1] = t; } a }
pub fn pred_arr(a: &[i32; 3]) -> bool { a[2] != 7 }

pub mod d_flt_f32_greater_sym {
    use super::*;
    #[nutype(validate(greater = sym_lo_f32()), derive(Debug, Clone, Copy, PartialEq, PartialOrd, AsRef, Deref, Borrow, Into, TryFrom))]
    pub struct FltF32GreaterSym(f32);
}
pub use d_flt_f32_greater_sym::*;
pub mod ref_flt_f32_greater_sym {
    #![allow(unused_imports, unused_variables, clippy::all)]
    use super::*;
    use super::d_flt_f32_greater_sym::*;
    pub type Inner = f32;
    pub fn sanitize(x: Inner) -> Inner { x }
    pub type Error = FltF32GreaterSymError;
    pub fn validate(x: &Inner) -> Result<(), Error> { let v = *x; if !!(v <= (sym_lo_f32())) { return Err(FltF32GreaterSymError::GreaterViolated); } Ok(()) }
    pub fn try_new(raw: Inner) -> Result<Inner, Error> { let s = sanitize(raw); validate(&s)?; Ok(s) }
    pub fn valid(x: &Inner) -> bool { validate(x).is_ok() }
}
pub mod d_flt_f32_greater_or_equal_sym {
    use super::*;
    #[nutype(validate(greater_or_equal = sym_lo_f32()), derive(Debug, Clone, Copy, PartialEq, PartialOrd, AsRef, Deref, Borrow, Into, TryFrom))]
    pub struct FltF32GreaterOrEqualSym(f32);
}
pub use d_flt_f32_greater_or_equal_sym::*;
pub mod ref_flt_f32_greater_or_equal_sym {
    #![allow(unused_imports, unused_variables, clippy::all)]
    use super::*;
    use super::d_flt_f32_greater_or_equal_sym::*;
    pub type Inner = f32;
    pub fn sanitize(x: Inner) -> Inner { x }
    pub type Error = FltF32GreaterOrEqualSymError;
    pub fn validate(x: &Inner) -> Result<(), Error> { let v = *x; if !!(v < (sym_lo_f32())) { return Err(FltF32GreaterOrEqualSymError::GreaterOrEqualViolated); } Ok(()) }
    pub fn try_new(raw: Inner) -> Result<Inner, Error> { let s = sanitize(raw); validate(&s)?; Ok(s) }
    pub fn valid(x: &Inner) -> bool { validate(x).is_ok() }
}
pub mod d_flt_f32_less_sym {
    use super::*;
    #[nutype(validate(less = sym_hi_f32()), derive(Debug, Clone, Copy, PartialEq, PartialOrd, AsRef, Deref, Borrow, Into, TryFrom))]
    pub struct FltF32LessSym(f32);
}
pub use d_flt_f32_less_sym::*;
pub mod ref_flt_f32_less_sym {
    #![allow(unused_imports, unused_variables, clippy::all)]
    use super::*;
    use super::d_flt_f32_less_sym::*;
    pub type Inner = f32;
    pub fn sanitize(x: Inner) -> Inner { x }
    pub type Error = FltF32LessSymError;
    pub fn validate(x: &Inner) -> Result<(), Error> { let v = *x; if !!(v >= (sym_hi_f32())) { return Err(FltF32LessSymError::LessViolated); } Ok(()) }
    pub fn try_new(raw: Inner) -> Result<Inner, Error> { let s = sanitize(raw); validate(&s)?; Ok(s) }
    pub fn valid(x: &Inner) -> bool { validate(x).is_ok() }
}
pub mod d_flt_f32_less_or_equal_sym {
    use super::*;
    #[nutype(validate(less_or_equal = sym_hi_f32()), derive(Debug, Clone, Copy, PartialEq, PartialOrd, AsRef, Deref, Borrow, Into, TryFrom))]
    pub struct FltF32LessOrEqualSym(f32);
}
pub use d_flt_f32_less_or_equal_sym::*;
pub mod ref_flt_f32_less_or_equal_sym {
    #![allow(unused_imports, unused_variables, clippy::all)]
    use super::*;
    use super::d_flt_f32_less_or_equal_sym::*;
    pub type Inner = f32;
    pub fn sanitize(x: Inner) -> Inner { x }
    pub type Error = FltF32LessOrEqualSymError;
    pub fn validate(x: &Inner) -> Result<(), Error> { let v = *x; if !!(v > (sym_hi_f32())) { return Err(FltF32LessOrEqualSymError::LessOrEqualViolated); } Ok(()) }
    pub fn try_new(raw: Inner) -> Result<Inner, Error> { let s = sanitize(raw); validate(&s)?; Ok(s) }
    pub fn valid(x: &Inner) -> bool { validate(x).is_ok() }
}
pub mod d_flt_f32_finite {
    use super::*;
    #[nutype(validate(finite), derive(Debug, Clone, Copy, PartialEq, PartialOrd, AsRef, Deref, Borrow, Into, TryFrom, Eq, Ord))]
    pub struct FltF32Finite(f32);
}
pub use d_flt_f32_finite::*;
pub mod ref_flt_f32_finite {
    #![allow(unused_imports, unused_variables, clippy::all)]
    use super::*;
    use super::d_flt_f32_finite::*;
    pub type Inner = f32;
    pub fn sanitize(x: Inner) -> Inner { x }
    pub type Error = FltF32FiniteError;
    pub fn validate(x: &Inner) -> Result<(), Error> { let v = *x; if !v.is_finite() { return Err(FltF32FiniteError::FiniteViolated); } Ok(()) }
    pub fn try_new(raw: Inner) -> Result<Inner, Error> { let s = sanitize(raw); validate(&s)?; Ok(s) }
    pub fn valid(x: &Inner) -> bool { validate(x).is_ok() }
}
pub mod d_flt_f32_greater_less_sym {
    use super::*;
    #[nutype(validate(greater = sym_lo_f32(), less = sym_hi_f32()), derive(Debug, Clone, Copy, PartialEq, PartialOrd, AsRef, Deref, Borrow, Into, TryFrom))]
    pub struct FltF32GreaterLessSym(f32);
}
pub use d_flt_f32_greater_less_sym::*;
pub mod ref_flt_f32_greater_less_sym {
    #![allow(unused_imports, unused_variables, clippy::all)]
    use super::*;
    use super::d_flt_f32_greater_less_sym::*;
    pub type Inner = f32;
    pub fn sanitize(x: Inner) -> Inner { x }
    pub type Error = FltF32GreaterLessSymError;
    pub fn validate(x: &Inner) -> Result<(), Error> { let v = *x; if !!(v <= (sym_lo_f32())) { return Err(FltF32GreaterLessSymError::GreaterViolated); } if !!(v >= (sym_hi_f32())) { return Err(FltF32GreaterLessSymError::LessViolated); } Ok(()) }
    pub fn try_new(raw: Inner) -> Result<Inner, Error> { let s = sanitize(raw); validate(&s)?; Ok(s) }
    pub fn valid(x: &Inner) -> bool { validate(x).is_ok() }
}
pub mod d_flt_f32_fin_greater_less_sym {
    use super::*;
    #[nutype(validate(finite, greater = sym_lo_f32(), less = sym_hi_f32()), derive(Debug, Clone, Copy, PartialEq, PartialOrd, AsRef, Deref, Borrow, Into, TryFrom, Eq, Ord))]
    pub struct FltF32FinGreaterLessSym(f32);
}
pub use d_flt_f32_fin_greater_less_sym::*;
pub mod ref_flt_f32_fin_greater_less_sym {
    #![allow(unused_imports, unused_variables, clippy::all)]
    use super::*;
    use super::d_flt_f32_fin_greater_less_sym::*;
    pub type Inner = f32;
    pub fn sanitize(x: Inner) -> Inner { x }
    pub type Error = FltF32FinGreaterLessSymError;
    pub fn validate(x: &Inner) -> Result<(), Error> { let v = *x; if !v.is_finite() { return Err(FltF32FinGreaterLessSymError::FiniteViolated); } if !!(v <= (sym_lo_f32())) { return Err(FltF32FinGreaterLessSymError::GreaterViolated); } if !!(v >= (sym_hi_f32())) { return Err(FltF32FinGreaterLessSymError::LessViolated); } Ok(()) }
    pub fn try_new(raw: Inner) -> Result<Inner, Error> { let s = sanitize(raw); validate(&s)?; Ok(s) }
    pub fn valid(x: &Inner) -> bool { validate(x).is_ok() }
}
pub mod d_flt_f32_greater_less_or_equal_sym {
    use super::*;
    #[nutype(validate(greater = sym_lo_f32(), less_or_equal = sym_hi_f32()), derive(Debug, Clone, Copy, PartialEq, PartialOrd, AsRef, Deref, Borrow, Into, TryFrom))]
    pub struct FltF32GreaterLessOrEqualSym(f32);
}
pub use d_flt_f32_greater_less_or_equal_sym::*;
pub mod ref_flt_f32_greater_less_or_equal_sym {
    #![allow(unused_imports, unused_variables, clippy::all)]
    use super::*;
    use super::d_flt_f32_greater_less_or_equal_sym::*;
    pub type Inner = f32;
    pub fn sanitize(x: Inner) -> Inner { x }
    pub type Error = FltF32GreaterLessOrEqualSymError;
    pub fn validate(x: &Inner) -> Result<(), Error> { let v = *x; if !!(v <= (sym_lo_f32())) { return Err(FltF32GreaterLessOrEqualSymError::GreaterViolated); } if !!(v > (sym_hi_f32())) { return Err(FltF32GreaterLessOrEqualSymError::LessOrEqualViolated); } Ok(()) }
    pub fn try_new(raw: Inner) -> Result<Inner, Error> { let s = sanitize(raw); validate(&s)?; Ok(s) }
    pub fn valid(x: &Inner) -> bool { validate(x).is_ok() }
}
pub mod d_flt_f32_fin_greater_less_or_equal_sym {
    use super::*;
    #[nutype(validate(finite, greater = sym_lo_f32(), less_or_equal = sym_hi_f32()), derive(Debug, Clone, Copy, PartialEq, PartialOrd, AsRef, Deref, Borrow, Into, TryFrom, Eq, Ord))]
    pub struct FltF32FinGreaterLessOrEqualSym(f32);
}
pub use d_flt_f32_fin_greater_less_or_equal_sym::*;
pub mod ref_flt_f32_fin_greater_less_or_equal_sym {
    #![allow(unused_imports, unused_variables, clippy::all)]
    use super::*;
    use super::d_flt_f32_fin_greater_less_or_equal_sym::*;
    pub type Inner = f32;
    pub fn sanitize(x: Inner) -> Inner { x }
    pub type Error = FltF32FinGreaterLessOrEqualSymError;
    pub fn validate(x: &Inner) -> Result<(), Error> { let v = *x; if !v.is_finite() { return Err(FltF32FinGreaterLessOrEqualSymError::FiniteViolated); } if !!(v <= (sym_lo_f32())) { return Err(FltF32FinGreaterLessOrEqualSymError::GreaterViolated); } if !!(v > (sym_hi_f32())) { return Err(FltF32FinGreaterLessOrEqualSymError::LessOrEqualViolated); } Ok(()) }
    pub fn try_new(raw: Inner) -> Result<Inner, Error> { let s = sanitize(raw); validate(&s)?; Ok(s) }
    pub fn valid(x: &Inner) -> bool { validate(x).is_ok() }
}
pub mod d_flt_f32_greater_or_equal_less_sym {
    use super::*;
    #[nutype(validate(greater_or_equal = sym_lo_f32(), less = sym_hi_f32()), derive(Debug, Clone, Copy, PartialEq, PartialOrd, AsRef, Deref, Borrow, Into, TryFrom))]
    pub struct FltF32GreaterOrEqualLessSym(f32);
}
pub use d_flt_f32_greater_or_equal_less_sym::*;
pub mod ref_flt_f32_greater_or_equal_less_sym {
    #![allow(unused_imports, unused_variables, clippy::all)]
    use super::*;
    use super::d_flt_f32_greater_or_equal_less_sym::*;
    pub type Inner = f32;
    pub fn sanitize(x: Inner) -> Inner { x }
    pub type Error = FltF32GreaterOrEqualLessSymError;
    pub fn validate(x: &Inner) -> Result<(), Error> { let v = *x; if !!(v < (sym_lo_f32())) { return Err(FltF32GreaterOrEqualLessSymError::GreaterOrEqualViolated); } if !!(v >= (sym_hi_f32())) { return Err(FltF32GreaterOrEqualLessSymError::LessViolated); } Ok(()) }
    pub fn try_new(raw: Inner) -> Result<Inner, Error> { let s = sanitize(raw); validate(&s)?; Ok(s) }
    pub fn valid(x: &Inner) -> bool { validate(x).is_ok() }
}
pub mod d_flt_f32_fin_greater_or_equal_less_sym {
    use super::*;
    #[nutype(validate(finite, greater_or_equal = sym_lo_f32(), less = sym_hi_f32()), derive(Debug, Clone, Copy, PartialEq, PartialOrd, AsRef, Deref, Borrow, Into, TryFrom, Eq, Ord))]
    pub struct FltF32FinGreaterOrEqualLessSym(f32);
}
pub use d_flt_f32_fin_greater_or_equal_less_sym::*;
pub mod ref_flt_f32_fin_greater_or_equal_less_sym {
    #![allow(unused_imports, unused_variables, clippy::all)]
    use super::*;
    use super::d_flt_f32_fin_greater_or_equal_less_sym::*;
    pub type Inner = f32;
    pub fn sanitize(x: Inner) -> Inner { x }
    pub type Error = FltF32FinGreaterOrEqualLessSymError;
    pub fn validate(x: &Inner) -> Result<(), Error> { let v = *x; if !v.is_finite() { return Err(FltF32FinGreaterOrEqualLessSymError::FiniteViolated); } if !!(v < (sym_lo_f32())) { return Err(FltF32FinGreaterOrEqualLessSymError::GreaterOrEqualViolated); } if !!(v >= (sym_hi_f32())) { return Err(FltF32FinGreaterOrEqualLessSymError::LessViolated); } Ok(()) }
    pub fn try_new(raw: Inner) -> Result<Inner, Error> { let s = sanitize(raw); validate(&s)?; Ok(s) }
    pub fn valid(x: &Inner) -> bool { validate(x).is_ok() }
}
pub mod d_flt_f32_greater_or_equal_less_or_equal_sym {
    use super::*;
    #[nutype(validate(greater_or_equal = sym_lo_f32(), less_or_equal = sym_hi_f32()), derive(Debug, Clone, Copy, PartialEq, PartialOrd, AsRef, Deref, Borrow, Into, TryFrom))]
    pub struct FltF32GreaterOrEqualLessOrEqualSym(f32);
}
pub use d_flt_f32_greater_or_equal_less_or_equal_sym::*;
pub mod ref_flt_f32_greater_or_equal_less_or_equal_sym {
    #![allow(unused_imports, unused_variables, clippy::all)]
    use super::*;
    use super::d_flt_f32_greater_or_equal_less_or_equal_sym::*;
    pub type Inner = f32;
    pub fn sanitize(x: Inner) -> Inner { x }
    pub type Error = FltF32GreaterOrEqualLessOrEqualSymError;
    pub fn validate(x: &Inner) -> Result<(), Error> { let v = *x; if !!(v < (sym_lo_f32())) { return Err(FltF32GreaterOrEqualLessOrEqualSymError::GreaterOrEqualViolated); } if !!(v > (sym_hi_f32())) { return Err(FltF32GreaterOrEqualLessOrEqualSymError::LessOrEqualViolated); } Ok(()) }
    pub fn try_new(raw: Inner) -> Result<Inner, Error> { let s = sanitize(raw); validate(&s)?; Ok(s) }
    pub fn valid(x: &Inner) -> bool { validate(x).is_ok() }
}
pub mod d_flt_f32_fin_greater_or_equal_less_or_equal_sym {
    use super::*;
    #[nutype(validate(finite, greater_or_equal = sym_lo_f32(), less_or_equal = sym_hi_f32()), derive(Debug, Clone, Copy, PartialEq, PartialOrd, AsRef, Deref, Borrow, Into, TryFrom, Eq, Ord))]
    pub struct FltF32FinGreaterOrEqualLessOrEqualSym(f32);
}
pub use d_flt_f32_fin_greater_or_equal_less_or_equal_sym::*;
pub mod ref_flt_f32_fin_greater_or_equal_less_or_equal_sym {
    #![allow(unused_imports, unused_variables, clippy::all)]
    use super::*;
    use super::d_flt_f32_fin_greater_or_equal_less_or_equal_sym::*;
    pub type Inner = f32;
    pub fn sanitize(x: Inner) -> Inner { x }
    pub type Error = FltF32FinGreaterOrEqualLessOrEqualSymError;
    pub fn validate(x: &Inner) -> Result<(), Error> { let v = *x; if !v.is_finite() { return Err(FltF32FinGreaterOrEqualLessOrEqualSymError::FiniteViolated); } if !!(v < (sym_lo_f32())) { return Err(FltF32FinGreaterOrEqualLessOrEqualSymError::GreaterOrEqualViolated); } if !!(v > (sym_hi_f32())) { return Err(FltF32FinGreaterOrEqualLessOrEqualSymError::LessOrEqualViolated); } Ok(()) }
    pub fn try_new(raw: Inner) -> Result<Inner, Error> { let s = sanitize(raw); validate(&s)?; Ok(s) }
    pub fn valid(x: &Inner) -> bool { validate(x).is_ok() }
}
pub mod d_flt_f32_le_ge_fin_sym {
    use super::*;
    #[nutype(validate(less_or_equal = sym_hi_f32(), greater_or_equal = sym_lo_f32(), finite), derive(Debug, Clone, Copy, PartialEq, PartialOrd, AsRef, Deref, Borrow, Into, TryFrom, Eq, Ord))]
    pub struct FltF32LeGeFinSym(f32);
}
pub use d_flt_f32_le_ge_fin_sym::*;
pub mod ref_flt_f32_le_ge_fin_sym {
    #![allow(unused_imports, unused_variables, clippy::all)]
    use super::*;
    use super::d_flt_f32_le_ge_fin_sym::*;
    pub type Inner = f32;
    pub fn sanitize(x: Inner) -> Inner { x }
    pub type Error = FltF32LeGeFinSymError;
    pub fn validate(x: &Inner) -> Result<(), Error> { let v = *x; if !!(v > (sym_hi_f32())) { return Err(FltF32LeGeFinSymError::LessOrEqualViolated); } if !!(v < (sym_lo_f32())) { return Err(FltF32LeGeFinSymError::GreaterOrEqualViolated); } if !v.is_finite() { return Err(FltF32LeGeFinSymError::FiniteViolated); } Ok(()) }
    pub fn try_new(raw: Inner) -> Result<Inner, Error> { let s = sanitize(raw); validate(&s)?; Ok(s) }
    pub fn valid(x: &Inner) -> bool { validate(x).is_ok() }
}
pub mod d_flt_f32_pred_lt_fin {
    use super::*;
    #[nutype(validate(predicate = pred_f32, less = sym_hi_f32(), finite), derive(Debug, Clone, Copy, PartialEq, PartialOrd, AsRef, Deref, Borrow, Into, TryFrom, Eq, Ord))]
    pub struct FltF32PredLtFin(f32);
}
pub use d_flt_f32_pred_lt_fin::*;
pub mod ref_flt_f32_pred_lt_fin {
    #![allow(unused_imports, unused_variables, clippy::all)]
    use super::*;
    use super::d_flt_f32_pred_lt_fin::*;
    pub type Inner = f32;
    pub fn sanitize(x: Inner) -> Inner { x }
    pub type Error = FltF32PredLtFinError;
    pub fn validate(x: &Inner) -> Result<(), Error> { let v = *x; if !pred_f32(&v) { return Err(FltF32PredLtFinError::PredicateViolated); } if !!(v >= (sym_hi_f32())) { return Err(FltF32PredLtFinError::LessViolated); } if !v.is_finite() { return Err(FltF32PredLtFinError::FiniteViolated); } Ok(()) }
    pub fn try_new(raw: Inner) -> Result<Inner, Error> { let s = sanitize(raw); validate(&s)?; Ok(s) }
    pub fn valid(x: &Inner) -> bool { validate(x).is_ok() }
}
pub mod d_flt_f32_custom {
    use super::*;
    #[nutype(validate(with = vfn_f32, error = MyErr), derive(Debug, Clone, Copy, PartialEq, PartialOrd, AsRef, Deref, Borrow, Into, TryFrom))]
    pub struct FltF32Custom(f32);
}
pub use d_flt_f32_custom::*;
pub mod ref_flt_f32_custom {
    #![allow(unused_imports, unused_variables, clippy::all)]
    use super::*;
    use super::d_flt_f32_custom::*;
    pub type Inner = f32;
    pub fn sanitize(x: Inner) -> Inner { x }
    pub type Error = MyErr;
    pub fn validate(x: &Inner) -> Result<(), Error> { vfn_f32(x) }
    pub fn try_new(raw: Inner) -> Result<Inner, Error> { let s = sanitize(raw); validate(&s)?; Ok(s) }
    pub fn valid(x: &Inner) -> bool { validate(x).is_ok() }
}
pub mod d_flt_f32_san_fin_le {
    use super::*;
    #[nutype(sanitize(with = san_f32), validate(finite, less_or_equal = sym_hi_f32()), derive(Debug, Clone, Copy, PartialEq, PartialOrd, AsRef, Deref, Borrow, Into, TryFrom, Eq, Ord))]
    pub struct FltF32SanFinLe(f32);
}
pub use d_flt_f32_san_fin_le::*;
pub mod ref_flt_f32_san_fin_le {
    #![allow(unused_imports, unused_variables, clippy::all)]
    use super::*;
    use super::d_flt_f32_san_fin_le::*;
    pub type Inner = f32;
    pub fn sanitize(x: Inner) -> Inner { san_f32(x) }
    pub type Error = FltF32SanFinLeError;
    pub fn validate(x: &Inner) -> Result<(), Error> { let v = *x; if !v.is_finite() { return Err(FltF32SanFinLeError::FiniteViolated); } if !!(v > (sym_hi_f32())) { return Err(FltF32SanFinLeError::LessOrEqualViolated); } Ok(()) }
    pub fn try_new(raw: Inner) -> Result<Inner, Error> { let s = sanitize(raw); validate(&s)?; Ok(s) }
    pub fn valid(x: &Inner) -> bool { validate(x).is_ok() }
}
pub mod d_flt_f32_san_nov {
    use super::*;
    #[nutype(sanitize(with = san_f32), derive(Debug, Clone, Copy, PartialEq, PartialOrd, AsRef, Deref, Borrow, Into, From))]
    pub struct FltF32SanNov(f32);
}
pub use d_flt_f32_san_nov::*;
pub mod ref_flt_f32_san_nov {
    #![allow(unused_imports, unused_variables, clippy::all)]
    use super::*;
    use super::d_flt_f32_san_nov::*;
    pub type Inner = f32;
    pub fn sanitize(x: Inner) -> Inner { san_f32(x) }
    pub fn valid(x: &Inner) -> bool { true }
}
pub mod d_flt_f32_san3_fin_le {
    use super::*;
    #[nutype(sanitize(with = san3_f32), validate(finite, less_or_equal = sym_hi_f32()), derive(Debug, Clone, Copy, PartialEq, PartialOrd, AsRef, Deref, Borrow, Into, TryFrom, Eq, Ord))]
    pub struct FltF32San3FinLe(f32);
}
pub use d_flt_f32_san3_fin_le::*;
pub mod ref_flt_f32_san3_fin_le {
    #![allow(unused_imports, unused_variables, clippy::all)]
    use super::*;
    use super::d_flt_f32_san3_fin_le::*;
    pub type Inner = f32;
    pub fn sanitize(x: Inner) -> Inner { san3_f32(x) }
    pub type Error = FltF32San3FinLeError;
    pub fn validate(x: &Inner) -> Result<(), Error> { let v = *x; if !v.is_finite() { return Err(FltF32San3FinLeError::FiniteViolated); } if !!(v > (sym_hi_f32())) { return Err(FltF32San3FinLeError::LessOrEqualViolated); } Ok(()) }
    pub fn try_new(raw: Inner) -> Result<Inner, Error> { let s = sanitize(raw); validate(&s)?; Ok(s) }
    pub fn valid(x: &Inner) -> bool { validate(x).is_ok() }
}
pub mod d_flt_f32_san_nov_tf {
    use super::*;
    #[nutype(sanitize(with = san_f32), derive(Debug, Clone, Copy, PartialEq, PartialOrd, AsRef, Deref, Borrow, Into, TryFrom))]
    pub struct FltF32SanNovTf(f32);
}
pub use d_flt_f32_san_nov_tf::*;
pub mod ref_flt_f32_san_nov_tf {
    #![allow(unused_imports, unused_variables, clippy::all)]
    use super::*;
    use super::d_flt_f32_san_nov_tf::*;
    pub type Inner = f32;
    pub fn sanitize(x: Inner) -> Inner { san_f32(x) }
    pub fn valid(x: &Inner) -> bool { true }
}
pub mod d_flt_f32_nothing {
    use super::*;
    #[nutype(derive(Debug, Clone, Copy, PartialEq, PartialOrd, AsRef, Deref, Borrow, Into, From))]
    pub struct FltF32Nothing(f32);
}
pub use d_flt_f32_nothing::*;
pub mod ref_flt_f32_nothing {
    #![allow(unused_imports, unused_variables, clippy::all)]
    use super::*;
    use super::d_flt_f32_nothing::*;
    pub type Inner = f32;
    pub fn sanitize(x: Inner) -> Inner { x }
    pub fn valid(x: &Inner) -> bool { true }
}
pub mod d_flt_f32_greater_or_equal_lit_zero {
    use super::*;
    #[nutype(validate(greater_or_equal = 0.0), derive(Debug, Clone, Copy, PartialEq, PartialOrd, AsRef, Deref, Borrow, Into, TryFrom))]
    pub struct FltF32GreaterOrEqualLitZero(f32);
}
pub use d_flt_f32_greater_or_equal_lit_zero::*;
pub mod ref_flt_f32_greater_or_equal_lit_zero {
    #![allow(unused_imports, unused_variables, clippy::all)]
    use super::*;
    use super::d_flt_f32_greater_or_equal_lit_zero::*;
    pub type Inner = f32;
    pub fn sanitize(x: Inner) -> Inner { x }
    pub type Error = FltF32GreaterOrEqualLitZeroError;
    pub fn validate(x: &Inner) -> Result<(), Error> { let v = *x; if !!(v < ((0.0 as f32))) { return Err(FltF32GreaterOrEqualLitZeroError::GreaterOrEqualViolated); } Ok(()) }
    pub fn try_new(raw: Inner) -> Result<Inner, Error> { let s = sanitize(raw); validate(&s)?; Ok(s) }
    pub fn valid(x: &Inner) -> bool { validate(x).is_ok() }
}
pub mod d_flt_f32_greater_lit_negzero {
    use super::*;
    #[nutype(validate(greater = -0.0), derive(Debug, Clone, Copy, PartialEq, PartialOrd, AsRef, Deref, Borrow, Into, TryFrom))]
    pub struct FltF32GreaterLitNegzero(f32);
}
pub use d_flt_f32_greater_lit_negzero::*;
pub mod ref_flt_f32_greater_lit_negzero {
    #![allow(unused_imports, unused_variables, clippy::all)]
    use super::*;
    use super::d_flt_f32_greater_lit_negzero::*;
    pub type Inner = f32;
    pub fn sanitize(x: Inner) -> Inner { x }
    pub type Error = FltF32GreaterLitNegzeroError;
    pub fn validate(x: &Inner) -> Result<(), Error> { let v = *x; if !!(v <= ((-0.0 as f32))) { return Err(FltF32GreaterLitNegzeroError::GreaterViolated); } Ok(()) }
    pub fn try_new(raw: Inner) -> Result<Inner, Error> { let s = sanitize(raw); validate(&s)?; Ok(s) }
    pub fn valid(x: &Inner) -> bool { validate(x).is_ok() }
}
pub mod d_flt_f32_less_lit_big {
    use super::*;
    #[nutype(validate(less = 1e30), derive(Debug, Clone, Copy, PartialEq, PartialOrd, AsRef, Deref, Borrow, Into, TryFrom))]
    pub struct FltF32LessLitBig(f32);
}
pub use d_flt_f32_less_lit_big::*;
pub mod ref_flt_f32_less_lit_big {
    #![allow(unused_imports, unused_variables, clippy::all)]
    use super::*;
    use super::d_flt_f32_less_lit_big::*;
    pub type Inner = f32;
    pub fn sanitize(x: Inner) -> Inner { x }
    pub type Error = FltF32LessLitBigError;
    pub fn validate(x: &Inner) -> Result<(), Error> { let v = *x; if !!(v >= ((1e30 as f32))) { return Err(FltF32LessLitBigError::LessViolated); } Ok(()) }
    pub fn try_new(raw: Inner) -> Result<Inner, Error> { let s = sanitize(raw); validate(&s)?; Ok(s) }
    pub fn valid(x: &Inner) -> bool { validate(x).is_ok() }
}
pub mod d_flt_f32_greater_lit_small {
    use super::*;
    #[nutype(validate(greater = 1e-30), derive(Debug, Clone, Copy, PartialEq, PartialOrd, AsRef, Deref, Borrow, Into, TryFrom))]
    pub struct FltF32GreaterLitSmall(f32);
}
pub use d_flt_f32_greater_lit_small::*;
pub mod ref_flt_f32_greater_lit_small {
    #![allow(unused_imports, unused_variables, clippy::all)]
    use super::*;
    use super::d_flt_f32_greater_lit_small::*;
    pub type Inner = f32;
    pub fn sanitize(x: Inner) -> Inner { x }
    pub type Error = FltF32GreaterLitSmallError;
    pub fn validate(x: &Inner) -> Result<(), Error> { let v = *x; if !!(v <= ((1e-30 as f32))) { return Err(FltF32GreaterLitSmallError::GreaterViolated); } Ok(()) }
    pub fn try_new(raw: Inner) -> Result<Inner, Error> { let s = sanitize(raw); validate(&s)?; Ok(s) }
    pub fn valid(x: &Inner) -> bool { validate(x).is_ok() }
}
pub mod d_flt_f32_less_or_equal_lit_neg {
    use super::*;
    #[nutype(validate(less_or_equal = -2.5), derive(Debug, Clone, Copy, PartialEq, PartialOrd, AsRef, Deref, Borrow, Into, TryFrom))]
    pub struct FltF32LessOrEqualLitNeg(f32);
}
pub use d_flt_f32_less_or_equal_lit_neg::*;
pub mod ref_flt_f32_less_or_equal_lit_neg {
    #![allow(unused_imports, unused_variables, clippy::all)]
    use super::*;
    use super::d_flt_f32_less_or_equal_lit_neg::*;
    pub type Inner = f32;
    pub fn sanitize(x: Inner) -> Inner { x }
    pub type Error = FltF32LessOrEqualLitNegError;
    pub fn validate(x: &Inner) -> Result<(), Error> { let v = *x; if !!(v > ((-2.5 as f32))) { return Err(FltF32LessOrEqualLitNegError::LessOrEqualViolated); } Ok(()) }
    pub fn try_new(raw: Inner) -> Result<Inner, Error> { let s = sanitize(raw); validate(&s)?; Ok(s) }
    pub fn valid(x: &Inner) -> bool { validate(x).is_ok() }
}
pub mod d_flt_f32_less_or_equal_lit_intlit {
    use super::*;
    #[nutype(validate(less_or_equal = 100), derive(Debug, Clone, Copy, PartialEq, PartialOrd, AsRef, Deref, Borrow, Into, TryFrom))]
    pub struct FltF32LessOrEqualLitIntlit(f32);
}
pub use d_flt_f32_less_or_equal_lit_intlit::*;
pub mod ref_flt_f32_less_or_equal_lit_intlit {
    #![allow(unused_imports, unused_variables, clippy::all)]
    use super::*;
    use super::d_flt_f32_less_or_equal_lit_intlit::*;
    pub type Inner = f32;
    pub fn sanitize(x: Inner) -> Inner { x }
    pub type Error = FltF32LessOrEqualLitIntlitError;
    pub fn validate(x: &Inner) -> Result<(), Error> { let v = *x; if !!(v > ((100.0 as f32))) { return Err(FltF32LessOrEqualLitIntlitError::LessOrEqualViolated); } Ok(()) }
    pub fn try_new(raw: Inner) -> Result<Inner, Error> { let s = sanitize(raw); validate(&s)?; Ok(s) }
    pub fn valid(x: &Inner) -> bool { validate(x).is_ok() }
}
pub mod d_flt_f32_greater_or_equal_lit_under {
    use super::*;
    #[nutype(validate(greater_or_equal = 1_000.5), derive(Debug, Clone, Copy, PartialEq, PartialOrd, AsRef, Deref, Borrow, Into, TryFrom))]
    pub struct FltF32GreaterOrEqualLitUnder(f32);
}
pub use d_flt_f32_greater_or_equal_lit_under::*;
pub mod ref_flt_f32_greater_or_equal_lit_under {
    #![allow(unused_imports, unused_variables, clippy::all)]
    use super::*;
    use super::d_flt_f32_greater_or_equal_lit_under::*;
    pub type Inner = f32;
    pub fn sanitize(x: Inner) -> Inner { x }
    pub type Error = FltF32GreaterOrEqualLitUnderError;
    pub fn validate(x: &Inner) -> Result<(), Error> { let v = *x; if !!(v < ((1000.5 as f32))) { return Err(FltF32GreaterOrEqualLitUnderError::GreaterOrEqualViolated); } Ok(()) }
    pub fn try_new(raw: Inner) -> Result<Inner, Error> { let s = sanitize(raw); validate(&s)?; Ok(s) }
    pub fn valid(x: &Inner) -> bool { validate(x).is_ok() }
}
pub mod d_flt_f32_fin_ge_le_lit_const {
    use super::*;
    #[nutype(const_fn, validate(finite, greater_or_equal = -1.0, less_or_equal = 1.0), derive(Debug, Clone, Copy, PartialEq, PartialOrd, AsRef, Deref, Borrow, Into, TryFrom, Eq, Ord))]
    pub struct FltF32FinGeLeLitConst(f32);
}
pub use d_flt_f32_fin_ge_le_lit_const::*;
pub mod ref_flt_f32_fin_ge_le_lit_const {
    #![allow(unused_imports, unused_variables, clippy::all)]
    use super::*;
    use super::d_flt_f32_fin_ge_le_lit_const::*;
    pub type Inner = f32;
    pub fn sanitize(x: Inner) -> Inner { x }
    pub type Error = FltF32FinGeLeLitConstError;
    pub fn validate(x: &Inner) -> Result<(), Error> { let v = *x; if !v.is_finite() { return Err(FltF32FinGeLeLitConstError::FiniteViolated); } if !!(v < ((-1.0 as f32))) { return Err(FltF32FinGeLeLitConstError::GreaterOrEqualViolated); } if !!(v > ((1.0 as f32))) { return Err(FltF32FinGeLeLitConstError::LessOrEqualViolated); } Ok(()) }
    pub fn try_new(raw: Inner) -> Result<Inner, Error> { let s = sanitize(raw); validate(&s)?; Ok(s) }
    pub fn valid(x: &Inner) -> bool { validate(x).is_ok() }
}
pub mod d_flt_f64_greater_sym {
    use super::*;
    #[nutype(validate(greater = sym_lo_f64()), derive(Debug, Clone, Copy, PartialEq, PartialOrd, AsRef, Deref, Borrow, Into, TryFrom))]
    pub struct FltF64GreaterSym(f64);
}
pub use d_flt_f64_greater_sym::*;
pub mod ref_flt_f64_greater_sym {
    #![allow(unused_imports, unused_variables, clippy::all)]
    use super::*;
    use super::d_flt_f64_greater_sym::*;
    pub type Inner = f64;
    pub fn sanitize(x: Inner) -> Inner { x }
    pub type Error = FltF64GreaterSymError;
    pub fn validate(x: &Inner) -> Result<(), Error> { let v = *x; if !!(v <= (sym_lo_f64())) { return Err(FltF64GreaterSymError::GreaterViolated); } Ok(()) }
    pub fn try_new(raw: Inner) -> Result<Inner, Error> { let s = sanitize(raw); validate(&s)?; Ok(s) }
    pub fn valid(x: &Inner) -> bool { validate(x).is_ok() }
}
pub mod d_flt_f64_greater_or_equal_sym {
    use super::*;
    #[nutype(validate(greater_or_equal = sym_lo_f64()), derive(Debug, Clone, Copy, PartialEq, PartialOrd, AsRef, Deref, Borrow, Into, TryFrom))]
    pub struct FltF64GreaterOrEqualSym(f64);
}
pub use d_flt_f64_greater_or_equal_sym::*;
pub mod ref_flt_f64_greater_or_equal_sym {
    #![allow(unused_imports, unused_variables, clippy::all)]
    use super::*;
    use super::d_flt_f64_greater_or_equal_sym::*;
    pub type Inner = f64;
    pub fn sanitize(x: Inner) -> Inner { x }
    pub type Error = FltF64GreaterOrEqualSymError;
    pub fn validate(x: &Inner) -> Result<(), Error> { let v = *x; if !!(v < (sym_lo_f64())) { return Err(FltF64GreaterOrEqualSymError::GreaterOrEqualViolated); } Ok(()) }
    pub fn try_new(raw: Inner) -> Result<Inner, Error> { let s = sanitize(raw); validate(&s)?; Ok(s) }
    pub fn valid(x: &Inner) -> bool { validate(x).is_ok() }
}
pub mod d_flt_f64_less_sym {
    use super::*;
    #[nutype(validate(less = sym_hi_f64()), derive(Debug, Clone, Copy, PartialEq, PartialOrd, AsRef, Deref, Borrow, Into, TryFrom))]
    pub struct FltF64LessSym(f64);
}
pub use d_flt_f64_less_sym::*;
pub mod ref_flt_f64_less_sym {
    #![allow(unused_imports, unused_variables, clippy::all)]
    use super::*;
    use super::d_flt_f64_less_sym::*;
    pub type Inner = f64;
    pub fn sanitize(x: Inner) -> Inner { x }
    pub type Error = FltF64LessSymError;
    pub fn validate(x: &Inner) -> Result<(), Error> { let v = *x; if !!(v >= (sym_hi_f64())) { return Err(FltF64LessSymError::LessViolated); } Ok(()) }
    pub fn try_new(raw: Inner) -> Result<Inner, Error> { let s = sanitize(raw); validate(&s)?; Ok(s) }
    pub fn valid(x: &Inner) -> bool { validate(x).is_ok() }
}
pub mod d_flt_f64_less_or_equal_sym {
    use super::*;
    #[nutype(validate(less_or_equal = sym_hi_f64()), derive(Debug, Clone, Copy, PartialEq, PartialOrd, AsRef, Deref, Borrow, Into, TryFrom))]
    pub struct FltF64LessOrEqualSym(f64);
}
pub use d_flt_f64_less_or_equal_sym::*;
pub mod ref_flt_f64_less_or_equal_sym {
    #![allow(unused_imports, unused_variables, clippy::all)]
    use super::*;
    use super::d_flt_f64_less_or_equal_sym::*;
    pub type Inner = f64;
    pub fn sanitize(x: Inner) -> Inner { x }
    pub type Error = FltF64LessOrEqualSymError;
    pub fn validate(x: &Inner) -> Result<(), Error> { let v = *x; if !!(v > (sym_hi_f64())) { return Err(FltF64LessOrEqualSymError::LessOrEqualViolated); } Ok(()) }
    pub fn try_new(raw: Inner) -> Result<Inner, Error> { let s = sanitize(raw); validate(&s)?; Ok(s) }
    pub fn valid(x: &Inner) -> bool { validate(x).is_ok() }
}
pub mod d_flt_f64_finite {
    use super::*;
    #[nutype(validate(finite), derive(Debug, Clone, Copy, PartialEq, PartialOrd, AsRef, Deref, Borrow, Into, TryFrom, Eq, Ord))]
    pub struct FltF64Finite(f64);
}
pub use d_flt_f64_finite::*;
pub mod ref_flt_f64_finite {
    #![allow(unused_imports, unused_variables, clippy::all)]
    use super::*;
    use super::d_flt_f64_finite::*;
    pub type Inner = f64;
    pub fn sanitize(x: Inner) -> Inner { x }
    pub type Error = FltF64FiniteError;
    pub fn validate(x: &Inner) -> Result<(), Error> { let v = *x; if !v.is_finite() { return Err(FltF64FiniteError::FiniteViolated); } Ok(()) }
    pub fn try_new(raw: Inner) -> Result<Inner, Error> { let s = sanitize(raw); validate(&s)?; Ok(s) }
    pub fn valid(x: &Inner) -> bool { validate(x).is_ok() }
}
pub mod d_flt_f64_greater_less_sym {
    use super::*;
    #[nutype(validate(greater = sym_lo_f64(), less = sym_hi_f64()), derive(Debug, Clone, Copy, PartialEq, PartialOrd, AsRef, Deref, Borrow, Into, TryFrom))]
    pub struct FltF64GreaterLessSym(f64);
}
pub use d_flt_f64_greater_less_sym::*;
pub mod ref_flt_f64_greater_less_sym {
    #![allow(unused_imports, unused_variables, clippy::all)]
    use super::*;
    use super::d_flt_f64_greater_less_sym::*;
    pub type Inner = f64;
    pub fn sanitize(x: Inner) -> Inner { x }
    pub type Error = FltF64GreaterLessSymError;
    pub fn validate(x: &Inner) -> Result<(), Error> { let v = *x; if !!(v <= (sym_lo_f64())) { return Err(FltF64GreaterLessSymError::GreaterViolated); } if !!(v >= (sym_hi_f64())) { return Err(FltF64GreaterLessSymError::LessViolated); } Ok(()) }
    pub fn try_new(raw: Inner) -> Result<Inner, Error> { let s = sanitize(raw); validate(&s)?; Ok(s) }
    pub fn valid(x: &Inner) -> bool { validate(x).is_ok() }
}
pub mod d_flt_f64_fin_greater_less_sym {
    use super::*;
    #[nutype(validate(finite, greater = sym_lo_f64(), less = sym_hi_f64()), derive(Debug, Clone, Copy, PartialEq, PartialOrd, AsRef, Deref, Borrow, Into, TryFrom, Eq, Ord))]
    pub struct FltF64FinGreaterLessSym(f64);
}
pub use d_flt_f64_fin_greater_less_sym::*;
pub mod ref_flt_f64_fin_greater_less_sym {
    #![allow(unused_imports, unused_variables, clippy::all)]
    use super::*;
    use super::d_flt_f64_fin_greater_less_sym::*;
    pub type Inner = f64;
    pub fn sanitize(x: Inner) -> Inner { x }
    pub type Error = FltF64FinGreaterLessSymError;
    pub fn validate(x: &Inner) -> Result<(), Error> { let v = *x; if !v.is_finite() { return Err(FltF64FinGreaterLessSymError::FiniteViolated); } if !!(v <= (sym_lo_f64())) { return Err(FltF64FinGreaterLessSymError::GreaterViolated); } if !!(v >= (sym_hi_f64())) { return Err(FltF64FinGreaterLessSymError::LessViolated); } Ok(()) }
    pub fn try_new(raw: Inner) -> Result<Inner, Error> { let s = sanitize(raw); validate(&s)?; Ok(s) }
    pub fn valid(x: &Inner) -> bool { validate(x).is_ok() }
}
pub mod d_flt_f64_greater_less_or_equal_sym {
    use super::*;
    #[nutype(validate(greater = sym_lo_f64(), less_or_equal = sym_hi_f64()), derive(Debug, Clone, Copy, PartialEq, PartialOrd, AsRef, Deref, Borrow, Into, TryFrom))]
    pub struct FltF64GreaterLessOrEqualSym(f64);
}
pub use d_flt_f64_greater_less_or_equal_sym::*;
pub mod ref_flt_f64_greater_less_or_equal_sym {
    #![allow(unused_imports, unused_variables, clippy::all)]
    use super::*;
    use super::d_flt_f64_greater_less_or_equal_sym::*;
    pub type Inner = f64;
    pub fn sanitize(x: Inner) -> Inner { x }
    pub type Error = FltF64GreaterLessOrEqualSymError;
    pub fn validate(x: &Inner) -> Result<(), Error> { let v = *x; if !!(v <= (sym_lo_f64())) { return Err(FltF64GreaterLessOrEqualSymError::GreaterViolated); } if !!(v > (sym_hi_f64())) { return Err(FltF64GreaterLessOrEqualSymError::LessOrEqualViolated); } Ok(()) }
    pub fn try_new(raw: Inner) -> Result<Inner, Error> { let s = sanitize(raw); validate(&s)?; Ok(s) }
    pub fn valid(x: &Inner) -> bool { validate(x).is_ok() }
}
pub mod d_flt_f64_fin_greater_less_or_equal_sym {
    use super::*;
    #[nutype(validate(finite, greater = sym_lo_f64(), less_or_equal = sym_hi_f64()), derive(Debug, Clone, Copy, PartialEq, PartialOrd, AsRef, Deref, Borrow, Into, TryFrom, Eq, Ord))]
    pub struct FltF64FinGreaterLessOrEqualSym(f64);
}
pub use d_flt_f64_fin_greater_less_or_equal_sym::*;
pub mod ref_flt_f64_fin_greater_less_or_equal_sym {
    #![allow(unused_imports, unused_variables, clippy::all)]
    use super::*;
    use super::d_flt_f64_fin_greater_less_or_equal_sym::*;
    pub type Inner = f64;
    pub fn sanitize(x: Inner) -> Inner { x }
    pub type Error = FltF64FinGreaterLessOrEqualSymError;
    pub fn validate(x: &Inner) -> Result<(), Error> { let v = *x; if !v.is_finite() { return Err(FltF64FinGreaterLessOrEqualSymError::FiniteViolated); } if !!(v <= (sym_lo_f64())) { return Err(FltF64FinGreaterLessOrEqualSymError::GreaterViolated); } if !!(v > (sym_hi_f64())) { return Err(FltF64FinGreaterLessOrEqualSymError::LessOrEqualViolated); } Ok(()) }
    pub fn try_new(raw: Inner) -> Result<Inner, Error> { let s = sanitize(raw); validate(&s)?; Ok(s) }
    pub fn valid(x: &Inner) -> bool { validate(x).is_ok() }
}
pub mod d_flt_f64_greater_or_equal_less_sym {
    use super::*;
    #[nutype(validate(greater_or_equal = sym_lo_f64(), less = sym_hi_f64()), derive(Debug, Clone, Copy, PartialEq, PartialOrd, AsRef, Deref, Borrow, Into, TryFrom))]
    pub struct FltF64GreaterOrEqualLessSym(f64);
}
pub use d_flt_f64_greater_or_equal_less_sym::*;
pub mod ref_flt_f64_greater_or_equal_less_sym {
    #![allow(unused_imports, unused_variables, clippy::all)]
    use super::*;
    use super::d_flt_f64_greater_or_equal_less_sym::*;
    pub type Inner = f64;
    pub fn sanitize(x: Inner) -> Inner { x }
    pub type Error = FltF64GreaterOrEqualLessSymError;
    pub fn validate(x: &Inner) -> Result<(), Error> { let v = *x; if !!(v < (sym_lo_f64())) { return Err(FltF64GreaterOrEqualLessSymError::GreaterOrEqualViolated); } if !!(v >= (sym_hi_f64())) { return Err(FltF64GreaterOrEqualLessSymError::LessViolated); } Ok(()) }
    pub fn try_new(raw: Inner) -> Result<Inner, Error> { let s = sanitize(raw); validate(&s)?; Ok(s) }
    pub fn valid(x: &Inner) -> bool { validate(x).is_ok() }
}
pub mod d_flt_f64_fin_greater_or_equal_less_sym {
    use super::*;
    #[nutype(validate(finite, greater_or_equal = sym_lo_f64(), less = sym_hi_f64()), derive(Debug, Clone, Copy, PartialEq, PartialOrd, AsRef, Deref, Borrow, Into, TryFrom, Eq, Ord))]
    pub struct FltF64FinGreaterOrEqualLessSym(f64);
}
pub use d_flt_f64_fin_greater_or_equal_less_sym::*;
pub mod ref_flt_f64_fin_greater_or_equal_less_sym {
    #![allow(unused_imports, unused_variables, clippy::all)]
    use super::*;
    use super::d_flt_f64_fin_greater_or_equal_less_sym::*;
    pub type Inner = f64;
    pub fn sanitize(x: Inner) -> Inner { x }
    pub type Error = FltF64FinGreaterOrEqualLessSymError;
    pub fn validate(x: &Inner) -> Result<(), Error> { let v = *x; if !v.is_finite() { return Err(FltF64FinGreaterOrEqualLessSymError::FiniteViolated); } if !!(v < (sym_lo_f64())) { return Err(FltF64FinGreaterOrEqualLessSymError::GreaterOrEqualViolated); } if !!(v >= (sym_hi_f64())) { return Err(FltF64FinGreaterOrEqualLessSymError::LessViolated); } Ok(()) }
    pub fn try_new(raw: Inner) -> Result<Inner, Error> { let s = sanitize(raw); validate(&s)?; Ok(s) }
    pub fn valid(x: &Inner) -> bool { validate(x).is_ok() }
}
pub mod d_flt_f64_greater_or_equal_less_or_equal_sym {
    use super::*;
    #[nutype(validate(greater_or_equal = sym_lo_f64(), less_or_equal = sym_hi_f64()), derive(Debug, Clone, Copy, PartialEq, PartialOrd, AsRef, Deref, Borrow, Into, TryFrom))]
    pub struct FltF64GreaterOrEqualLessOrEqualSym(f64);
}
pub use d_flt_f64_greater_or_equal_less_or_equal_sym::*;
pub mod ref_flt_f64_greater_or_equal_less_or_equal_sym {
    #![allow(unused_imports, unused_variables, clippy::all)]
    use super::*;
    use super::d_flt_f64_greater_or_equal_less_or_equal_sym::*;
    pub type Inner = f64;
    pub fn sanitize(x: Inner) -> Inner { x }
    pub type Error = FltF64GreaterOrEqualLessOrEqualSymError;
    pub fn validate(x: &Inner) -> Result<(), Error> { let v = *x; if !!(v < (sym_lo_f64())) { return Err(FltF64GreaterOrEqualLessOrEqualSymError::GreaterOrEqualViolated); } if !!(v > (sym_hi_f64())) { return Err(FltF64GreaterOrEqualLessOrEqualSymError::LessOrEqualViolated); } Ok(()) }
    pub fn try_new(raw: Inner) -> Result<Inner, Error> { let s = sanitize(raw); validate(&s)?; Ok(s) }
    pub fn valid(x: &Inner) -> bool { validate(x).is_ok() }
}
pub mod d_flt_f64_fin_greater_or_equal_less_or_equal_sym {
    use super::*;
    #[nutype(validate(finite, greater_or_equal = sym_lo_f64(), less_or_equal = sym_hi_f64()), derive(Debug, Clone, Copy, PartialEq, PartialOrd, AsRef, Deref, Borrow, Into, TryFrom, Eq, Ord))]
    pub struct FltF64FinGreaterOrEqualLessOrEqualSym(f64);
}
pub use d_flt_f64_fin_greater_or_equal_less_or_equal_sym::*;
pub mod ref_flt_f64_fin_greater_or_equal_less_or_equal_sym {
    #![allow(unused_imports, unused_variables, clippy::all)]
    use super::*;
    use super::d_flt_f64_fin_greater_or_equal_less_or_equal_sym::*;
    pub type Inner = f64;
    pub fn sanitize(x: Inner) -> Inner { x }
    pub type Error = FltF64FinGreaterOrEqualLessOrEqualSymError;
    pub fn validate(x: &Inner) -> Result<(), Error> { let v = *x; if !v.is_finite() { return Err(FltF64FinGreaterOrEqualLessOrEqualSymError::FiniteViolated); } if !!(v < (sym_lo_f64())) { return Err(FltF64FinGreaterOrEqualLessOrEqualSymError::GreaterOrEqualViolated); } if !!(v > (sym_hi_f64())) { return Err(FltF64FinGreaterOrEqualLessOrEqualSymError::LessOrEqualViolated); } Ok(()) }
    pub fn try_new(raw: Inner) -> Result<Inner, Error> { let s = sanitize(raw); validate(&s)?; Ok(s) }
    pub fn valid(x: &Inner) -> bool { validate(x).is_ok() }
}
pub mod d_flt_f64_le_ge_fin_sym {
    use super::*;
    #[nutype(validate(less_or_equal = sym_hi_f64(), greater_or_equal = sym_lo_f64(), finite), derive(Debug, Clone, Copy, PartialEq, PartialOrd, AsRef, Deref, Borrow, Into, TryFrom, Eq, Ord))]
    pub struct FltF64LeGeFinSym(f64);
}
pub use d_flt_f64_le_ge_fin_sym::*;
pub mod ref_flt_f64_le_ge_fin_sym {
    #![allow(unused_imports, unused_variables, clippy::all)]
    use super::*;
    use super::d_flt_f64_le_ge_fin_sym::*;
    pub type Inner = f64;
    pub fn sanitize(x: Inner) -> Inner { x }
    pub type Error = FltF64LeGeFinSymError;
    pub fn validate(x: &Inner) -> Result<(), Error> { let v = *x; if !!(v > (sym_hi_f64())) { return Err(FltF64LeGeFinSymError::LessOrEqualViolated); } if !!(v < (sym_lo_f64())) { return Err(FltF64LeGeFinSymError::GreaterOrEqualViolated); } if !v.is_finite() { return Err(FltF64LeGeFinSymError::FiniteViolated); } Ok(()) }
    pub fn try_new(raw: Inner) -> Result<Inner, Error> { let s = sanitize(raw); validate(&s)?; Ok(s) }
    pub fn valid(x: &Inner) -> bool { validate(x).is_ok() }
}
pub mod d_flt_f64_pred_lt_fin {
    use super::*;
    #[nutype(validate(predicate = pred_f64, less = sym_hi_f64(), finite), derive(Debug, Clone, Copy, PartialEq, PartialOrd, AsRef, Deref, Borrow, Into, TryFrom, Eq, Ord))]
    pub struct FltF64PredLtFin(f64);
}
pub use d_flt_f64_pred_lt_fin::*;
pub mod ref_flt_f64_pred_lt_fin {
    #![allow(unused_imports, unused_variables, clippy::all)]
    use super::*;
    use super::d_flt_f64_pred_lt_fin::*;
    pub type Inner = f64;
    pub fn sanitize(x: Inner) -> Inner { x }
    pub type Error = FltF64PredLtFinError;
    pub fn validate(x: &Inner) -> Result<(), Error> { let v = *x; if !pred_f64(&v) { return Err(FltF64PredLtFinError::PredicateViolated); } if !!(v >= (sym_hi_f64())) { return Err(FltF64PredLtFinError::LessViolated); } if !v.is_finite() { return Err(FltF64PredLtFinError::FiniteViolated); } Ok(()) }
    pub fn try_new(raw: Inner) -> Result<Inner, Error> { let s = sanitize(raw); validate(&s)?; Ok(s) }
    pub fn valid(x: &Inner) -> bool { validate(x).is_ok() }
}
pub mod d_flt_f64_custom {
    use super::*;
    #[nutype(validate(with = vfn_f64, error = MyErr), derive(Debug, Clone, Copy, PartialEq, PartialOrd, AsRef, Deref, Borrow, Into, TryFrom))]
    pub struct FltF64Custom(f64);
}
pub use d_flt_f64_custom::*;
pub mod ref_flt_f64_custom {
    #![allow(unused_imports, unused_variables, clippy::all)]
    use super::*;
    use super::d_flt_f64_custom::*;
    pub type Inner = f64;
    pub fn sanitize(x: Inner) -> Inner { x }
    pub type Error = MyErr;
    pub fn validate(x: &Inner) -> Result<(), Error> { vfn_f64(x) }
    pub fn try_new(raw: Inner) -> Result<Inner, Error> { let s = sanitize(raw); validate(&s)?; Ok(s) }
    pub fn valid(x: &Inner) -> bool { validate(x).is_ok() }
}
pub mod d_flt_f64_san_fin_le {
    use super::*;
    #[nutype(sanitize(with = san_f64), validate(finite, less_or_equal = sym_hi_f64()), derive(Debug, Clone, Copy, PartialEq, PartialOrd, AsRef, Deref, Borrow, Into, TryFrom, Eq, Ord))]
    pub struct FltF64SanFinLe(f64);
}
pub use d_flt_f64_san_fin_le::*;
pub mod ref_flt_f64_san_fin_le {
    #![allow(unused_imports, unused_variables, clippy::all)]
    use super::*;
    use super::d_flt_f64_san_fin_le::*;
    pub type Inner = f64;
    pub fn sanitize(x: Inner) -> Inner { san_f64(x) }
    pub type Error = FltF64SanFinLeError;
    pub fn validate(x: &Inner) -> Result<(), Error> { let v = *x; if !v.is_finite() { return Err(FltF64SanFinLeError::FiniteViolated); } if !!(v > (sym_hi_f64())) { return Err(FltF64SanFinLeError::LessOrEqualViolated); } Ok(()) }
    pub fn try_new(raw: Inner) -> Result<Inner, Error> { let s = sanitize(raw); validate(&s)?; Ok(s) }
    pub fn valid(x: &Inner) -> bool { validate(x).is_ok() }
}
pub mod d_flt_f64_san_nov {
    use super::*;
    #[nutype(sanitize(with = san_f64), derive(Debug, Clone, Copy, PartialEq, PartialOrd, AsRef, Deref, Borrow, Into, From))]
    pub struct FltF64SanNov(f64);
}
pub use d_flt_f64_san_nov::*;
pub mod ref_flt_f64_san_nov {
    #![allow(unused_imports, unused_variables, clippy::all)]
    use super::*;
    use super::d_flt_f64_san_nov::*;
    pub type Inner = f64;
    pub fn sanitize(x: Inner) -> Inner { san_f64(x) }
    pub fn valid(x: &Inner) -> bool { true }
}
pub mod d_flt_f64_san3_fin_le {
    use super::*;
    #[nutype(sanitize(with = san3_f64), validate(finite, less_or_equal = sym_hi_f64()), derive(Debug, Clone, Copy, PartialEq, PartialOrd, AsRef, Deref, Borrow, Into, TryFrom, Eq, Ord))]
    pub struct FltF64San3FinLe(f64);
}
pub use d_flt_f64_san3_fin_le::*;
pub mod ref_flt_f64_san3_fin_le {
    #![allow(unused_imports, unused_variables, clippy::all)]
    use super::*;
    use super::d_flt_f64_san3_fin_le::*;
    pub type Inner = f64;
    pub fn sanitize(x: Inner) -> Inner { san3_f64(x) }
    pub type Error = FltF64San3FinLeError;
    pub fn validate(x: &Inner) -> Result<(), Error> { let v = *x; if !v.is_finite() { return Err(FltF64San3FinLeError::FiniteViolated); } if !!(v > (sym_hi_f64())) { return Err(FltF64San3FinLeError::LessOrEqualViolated); } Ok(()) }
    pub fn try_new(raw: Inner) -> Result<Inner, Error> { let s = sanitize(raw); validate(&s)?; Ok(s) }
    pub fn valid(x: &Inner) -> bool { validate(x).is_ok() }
}
pub mod d_flt_f64_san_nov_tf {
    use super::*;
    #[nutype(sanitize(with = san_f64), derive(Debug, Clone, Copy, PartialEq, PartialOrd, AsRef, Deref, Borrow, Into, TryFrom))]
    pub struct FltF64SanNovTf(f64);
}
pub use d_flt_f64_san_nov_tf::*;
pub mod ref_flt_f64_san_nov_tf {
    #![allow(unused_imports, unused_variables, clippy::all)]
    use super::*;
    use super::d_flt_f64_san_nov_tf::*;
    pub type Inner = f64;
    pub fn sanitize(x: Inner) -> Inner { san_f64(x) }
    pub fn valid(x: &Inner) -> bool { true }
}
pub mod d_flt_f64_nothing {
    use super::*;
    #[nutype(derive(Debug, Clone, Copy, PartialEq, PartialOrd, AsRef, Deref, Borrow, Into, From))]
    pub struct FltF64Nothing(f64);
}
pub use d_flt_f64_nothing::*;
pub mod ref_flt_f64_nothing {
    #![allow(unused_imports, unused_variables, clippy::all)]
    use super::*;
    use super::d_flt_f64_nothing::*;
    pub type Inner = f64;
    pub fn sanitize(x: Inner) -> Inner { x }
    pub fn valid(x: &Inner) -> bool { true }
}
pub mod d_flt_f64_greater_or_equal_lit_zero {
    use super::*;
    #[nutype(validate(greater_or_equal = 0.0), derive(Debug, Clone, Copy, PartialEq, PartialOrd, AsRef, Deref, Borrow, Into, TryFrom))]
    pub struct FltF64GreaterOrEqualLitZero(f64);
}
pub use d_flt_f64_greater_or_equal_lit_zero::*;
pub mod ref_flt_f64_greater_or_equal_lit_zero {
    #![allow(unused_imports, unused_variables, clippy::all)]
    use super::*;
    use super::d_flt_f64_greater_or_equal_lit_zero::*;
    pub type Inner = f64;
    pub fn sanitize(x: Inner) -> Inner { x }
    pub type Error = FltF64GreaterOrEqualLitZeroError;
    pub fn validate(x: &Inner) -> Result<(), Error> { let v = *x; if !!(v < ((0.0 as f64))) { return Err(FltF64GreaterOrEqualLitZeroError::GreaterOrEqualViolated); } Ok(()) }
    pub fn try_new(raw: Inner) -> Result<Inner, Error> { let s = sanitize(raw); validate(&s)?; Ok(s) }
    pub fn valid(x: &Inner) -> bool { validate(x).is_ok() }
}
pub mod d_flt_f64_greater_lit_negzero {
    use super::*;
    #[nutype(validate(greater = -0.0), derive(Debug, Clone, Copy, PartialEq, PartialOrd, AsRef, Deref, Borrow, Into, TryFrom))]
    pub struct FltF64GreaterLitNegzero(f64);
}
pub use d_flt_f64_greater_lit_negzero::*;
pub mod ref_flt_f64_greater_lit_negzero {
    #![allow(unused_imports, unused_variables, clippy::all)]
    use super::*;
    use super::d_flt_f64_greater_lit_negzero::*;
    pub type Inner = f64;
    pub fn sanitize(x: Inner) -> Inner { x }
    pub type Error = FltF64GreaterLitNegzeroError;
    pub fn validate(x: &Inner) -> Result<(), Error> { let v = *x; if !!(v <= ((-0.0 as f64))) { return Err(FltF64GreaterLitNegzeroError::GreaterViolated); } Ok(()) }
    pub fn try_new(raw: Inner) -> Result<Inner, Error> { let s = sanitize(raw); validate(&s)?; Ok(s) }
    pub fn valid(x: &Inner) -> bool { validate(x).is_ok() }
}
pub mod d_flt_f64_less_lit_big {
    use super::*;
    #[nutype(validate(less = 1e30), derive(Debug, Clone, Copy, PartialEq, PartialOrd, AsRef, Deref, Borrow, Into, TryFrom))]
    pub struct FltF64LessLitBig(f64);
}
pub use d_flt_f64_less_lit_big::*;
pub mod ref_flt_f64_less_lit_big {
    #![allow(unused_imports, unused_variables, clippy::all)]
    use super::*;
    use super::d_flt_f64_less_lit_big::*;
    pub type Inner = f64;
    pub fn sanitize(x: Inner) -> Inner { x }
    pub type Error = FltF64LessLitBigError;
    pub fn validate(x: &Inner) -> Result<(), Error> { let v = *x; if !!(v >= ((1e30 as f64))) { return Err(FltF64LessLitBigError::LessViolated); } Ok(()) }
    pub fn try_new(raw: Inner) -> Result<Inner, Error> { let s = sanitize(raw); validate(&s)?; Ok(s) }
    pub fn valid(x: &Inner) -> bool { validate(x).is_ok() }
}
pub mod d_flt_f64_greater_lit_small {
    use super::*;
    #[nutype(validate(greater = 1e-30), derive(Debug, Clone, Copy, PartialEq, PartialOrd, AsRef, Deref, Borrow, Into, TryFrom))]
    pub struct FltF64GreaterLitSmall(f64);
}
pub use d_flt_f64_greater_lit_small::*;
pub mod ref_flt_f64_greater_lit_small {
    #![allow(unused_imports, unused_variables, clippy::all)]
    use super::*;
    use super::d_flt_f64_greater_lit_small::*;
    pub type Inner = f64;
    pub fn sanitize(x: Inner) -> Inner { x }
    pub type Error = FltF64GreaterLitSmallError;
    pub fn validate(x: &Inner) -> Result<(), Error> { let v = *x; if !!(v <= ((1e-30 as f64))) { return Err(FltF64GreaterLitSmallError::GreaterViolated); } Ok(()) }
    pub fn try_new(raw: Inner) -> Result<Inner, Error> { let s = sanitize(raw); validate(&s)?; Ok(s) }
    pub fn valid(x: &Inner) -> bool { validate(x).is_ok() }
}
pub mod d_flt_f64_less_or_equal_lit_neg {
    use super::*;
    #[nutype(validate(less_or_equal = -2.5), derive(Debug, Clone, Copy, PartialEq, PartialOrd, AsRef, Deref, Borrow, Into, TryFrom))]
    pub struct FltF64LessOrEqualLitNeg(f64);
}
pub use d_flt_f64_less_or_equal_lit_neg::*;
pub mod ref_flt_f64_less_or_equal_lit_neg {
    #![allow(unused_imports, unused_variables, clippy::all)]
    use super::*;
    use super::d_flt_f64_less_or_equal_lit_neg::*;
    pub type Inner = f64;
    pub fn sanitize(x: Inner) -> Inner { x }
    pub type Error = FltF64LessOrEqualLitNegError;
    pub fn validate(x: &Inner) -> Result<(), Error> { let v = *x; if !!(v > ((-2.5 as f64))) { return Err(FltF64LessOrEqualLitNegError::LessOrEqualViolated); } Ok(()) }
    pub fn try_new(raw: Inner) -> Result<Inner, Error> { let s = sanitize(raw); validate(&s)?; Ok(s) }
    pub fn valid(x: &Inner) -> bool { validate(x).is_ok() }
}
pub mod d_flt_f64_less_or_equal_lit_intlit {
    use super::*;
    #[nutype(validate(less_or_equal = 100), derive(Debug, Clone, Copy, PartialEq, PartialOrd, AsRef, Deref, Borrow, Into, TryFrom))]
    pub struct FltF64LessOrEqualLitIntlit(f64);
}
pub use d_flt_f64_less_or_equal_lit_intlit::*;
pub mod ref_flt_f64_less_or_equal_lit_intlit {
    #![allow(unused_imports, unused_variables, clippy::all)]
    use super::*;
    use super::d_flt_f64_less_or_equal_lit_intlit::*;
    pub type Inner = f64;
    pub fn sanitize(x: Inner) -> Inner { x }
    pub type Error = FltF64LessOrEqualLitIntlitError;
    pub fn validate(x: &Inner) -> Result<(), Error> { let v = *x; if !!(v > ((100.0 as f64))) { return Err(FltF64LessOrEqualLitIntlitError::LessOrEqualViolated); } Ok(()) }
    pub fn try_new(raw: Inner) -> Result<Inner, Error> { let s = sanitize(raw); validate(&s)?; Ok(s) }
    pub fn valid(x: &Inner) -> bool { validate(x).is_ok() }
}
pub mod d_flt_f64_greater_or_equal_lit_under {
    use super::*;
    #[nutype(validate(greater_or_equal = 1_000.5), derive(Debug, Clone, Copy, PartialEq, PartialOrd, AsRef, Deref, Borrow, Into, TryFrom))]
    pub struct FltF64GreaterOrEqualLitUnder(f64);
}
pub use d_flt_f64_greater_or_equal_lit_under::*;
pub mod ref_flt_f64_greater_or_equal_lit_under {
    #![allow(unused_imports, unused_variables, clippy::all)]
    use super::*;
    use super::d_flt_f64_greater_or_equal_lit_under::*;
    pub type Inner = f64;
    pub fn sanitize(x: Inner) -> Inner { x }
    pub type Error = FltF64GreaterOrEqualLitUnderError;
    pub fn validate(x: &Inner) -> Result<(), Error> { let v = *x; if !!(v < ((1000.5 as f64))) { return Err(FltF64GreaterOrEqualLitUnderError::GreaterOrEqualViolated); } Ok(()) }
    pub fn try_new(raw: Inner) -> Result<Inner, Error> { let s = sanitize(raw); validate(&s)?; Ok(s) }
    pub fn valid(x: &Inner) -> bool { validate(x).is_ok() }
}
pub mod d_flt_f64_fin_ge_le_lit_const {
    use super::*;
    #[nutype(const_fn, validate(finite, greater_or_equal = -1.0, less_or_equal = 1.0), derive(Debug, Clone, Copy, PartialEq, PartialOrd, AsRef, Deref, Borrow, Into, TryFrom, Eq, Ord))]
    pub struct FltF64FinGeLeLitConst(f64);
}
pub use d_flt_f64_fin_ge_le_lit_const::*;
pub mod ref_flt_f64_fin_ge_le_lit_const {
    #![allow(unused_imports, unused_variables, clippy::all)]
    use super::*;
    use super::d_flt_f64_fin_ge_le_lit_const::*;
    pub type Inner = f64;
    pub fn sanitize(x: Inner) -> Inner { x }
    pub type Error = FltF64FinGeLeLitConstError;
    pub fn validate(x: &Inner) -> Result<(), Error> { let v = *x; if !v.is_finite() { return Err(FltF64FinGeLeLitConstError::FiniteViolated); } if !!(v < ((-1.0 as f64))) { return Err(FltF64FinGeLeLitConstError::GreaterOrEqualViolated); } if !!(v > ((1.0 as f64))) { return Err(FltF64FinGeLeLitConstError::LessOrEqualViolated); } Ok(()) }
    pub fn try_new(raw: Inner) -> Result<Inner, Error> { let s = sanitize(raw); validate(&s)?; Ok(s) }
    pub fn valid(x: &Inner) -> bool { validate(x).is_ok() }
}
pub mod d_kint_u8_ge_le_sym {
    use super::*;
    #[nutype(validate(greater_or_equal = sym_lo_u8(), less_or_equal = sym_hi_u8()), derive(Debug, Clone, Copy, PartialEq, Eq, PartialOrd, Ord, Hash, AsRef, Deref, Borrow, Into, TryFrom))]
    pub struct KintU8GeLeSym(u8);
}
pub use d_kint_u8_ge_le_sym::*;
pub mod ref_kint_u8_ge_le_sym {
    #![allow(unused_imports, unused_variables, clippy::all)]
    use super::*;
    use super::d_kint_u8_ge_le_sym::*;
    pub type Inner = u8;
    pub fn sanitize(x: Inner) -> Inner { x }
    pub type Error = KintU8GeLeSymError;
    pub fn validate(x: &Inner) -> Result<(), Error> { let v = *x; if !(v >= (sym_lo_u8())) { return Err(KintU8GeLeSymError::GreaterOrEqualViolated); } if !(v <= (sym_hi_u8())) { return Err(KintU8GeLeSymError::LessOrEqualViolated); } Ok(()) }
    pub fn try_new(raw: Inner) -> Result<Inner, Error> { let s = sanitize(raw); validate(&s)?; Ok(s) }
    pub fn valid(x: &Inner) -> bool { validate(x).is_ok() }
}
pub mod d_kint_u8_san_nov {
    use super::*;
    #[nutype(sanitize(with = san_u8), derive(Debug, Clone, Copy, PartialEq, Eq, PartialOrd, Ord, Hash, AsRef, Deref, Borrow, Into, From))]
    pub struct KintU8SanNov(u8);
}
pub use d_kint_u8_san_nov::*;
pub mod ref_kint_u8_san_nov {
    #![allow(unused_imports, unused_variables, clippy::all)]
    use super::*;
    use super::d_kint_u8_san_nov::*;
    pub type Inner = u8;
    pub fn sanitize(x: Inner) -> Inner { san_u8(x) }
    pub fn valid(x: &Inner) -> bool { true }
}
pub mod d_kint_i8_ge_le_sym {
    use super::*;
    #[nutype(validate(greater_or_equal = sym_lo_i8(), less_or_equal = sym_hi_i8()), derive(Debug, Clone, Copy, PartialEq, Eq, PartialOrd, Ord, Hash, AsRef, Deref, Borrow, Into, TryFrom))]
    pub struct KintI8GeLeSym(i8);
}
pub use d_kint_i8_ge_le_sym::*;
pub mod ref_kint_i8_ge_le_sym {
    #![allow(unused_imports, unused_variables, clippy::all)]
    use super::*;
    use super::d_kint_i8_ge_le_sym::*;
    pub type Inner = i8;
    pub fn sanitize(x: Inner) -> Inner { x }
    pub type Error = KintI8GeLeSymError;
    pub fn validate(x: &Inner) -> Result<(), Error> { let v = *x; if !(v >= (sym_lo_i8())) { return Err(KintI8GeLeSymError::GreaterOrEqualViolated); } if !(v <= (sym_hi_i8())) { return Err(KintI8GeLeSymError::LessOrEqualViolated); } Ok(()) }
    pub fn try_new(raw: Inner) -> Result<Inner, Error> { let s = sanitize(raw); validate(&s)?; Ok(s) }
    pub fn valid(x: &Inner) -> bool { validate(x).is_ok() }
}
pub mod d_kint_i8_san_nov {
    use super::*;
    #[nutype(sanitize(with = san_i8), derive(Debug, Clone, Copy, PartialEq, Eq, PartialOrd, Ord, Hash, AsRef, Deref, Borrow, Into, From))]
    pub struct KintI8SanNov(i8);
}
pub use d_kint_i8_san_nov::*;
pub mod ref_kint_i8_san_nov {
    #![allow(unused_imports, unused_variables, clippy::all)]
    use super::*;
    use super::d_kint_i8_san_nov::*;
    pub type Inner = i8;
    pub fn sanitize(x: Inner) -> Inner { san_i8(x) }
    pub fn valid(x: &Inner) -> bool { true }
}
pub mod d_kint_u16_ge_le_sym {
    use super::*;
    #[nutype(validate(greater_or_equal = sym_lo_u16(), less_or_equal = sym_hi_u16()), derive(Debug, Clone, Copy, PartialEq, Eq, PartialOrd, Ord, Hash, AsRef, Deref, Borrow, Into, TryFrom))]
    pub struct KintU16GeLeSym(u16);
}
pub use d_kint_u16_ge_le_sym::*;
pub mod ref_kint_u16_ge_le_sym {
    #![allow(unused_imports, unused_variables, clippy::all)]
    use super::*;
    use super::d_kint_u16_ge_le_sym::*;
    pub type Inner = u16;
    pub fn sanitize(x: Inner) -> Inner { x }
    pub type Error = KintU16GeLeSymError;
    pub fn validate(x: &Inner) -> Result<(), Error> { let v = *x; if !(v >= (sym_lo_u16())) { return Err(KintU16GeLeSymError::GreaterOrEqualViolated); } if !(v <= (sym_hi_u16())) { return Err(KintU16GeLeSymError::LessOrEqualViolated); } Ok(()) }
    pub fn try_new(raw: Inner) -> Result<Inner, Error> { let s = sanitize(raw); validate(&s)?; Ok(s) }
    pub fn valid(x: &Inner) -> bool { validate(x).is_ok() }
}
pub mod d_kint_u16_san_nov {
    use super::*;
    #[nutype(sanitize(with = san_u16), derive(Debug, Clone, Copy, PartialEq, Eq, PartialOrd, Ord, Hash, AsRef, Deref, Borrow, Into, From))]
    pub struct KintU16SanNov(u16);
}
pub use d_kint_u16_san_nov::*;
pub mod ref_kint_u16_san_nov {
    #![allow(unused_imports, unused_variables, clippy::all)]
    use super::*;
    use super::d_kint_u16_san_nov::*;
    pub type Inner = u16;
    pub fn sanitize(x: Inner) -> Inner { san_u16(x) }
    pub fn valid(x: &Inner) -> bool { true }
}
pub mod d_kint_i32_ge_le_sym {
    use super::*;
    #[nutype(validate(greater_or_equal = sym_lo_i32(), less_or_equal = sym_hi_i32()), derive(Debug, Clone, Copy, PartialEq, Eq, PartialOrd, Ord, Hash, AsRef, Deref, Borrow, Into, TryFrom))]
    pub struct KintI32GeLeSym(i32);
}
pub use d_kint_i32_ge_le_sym::*;
pub mod ref_kint_i32_ge_le_sym {
    #![allow(unused_imports, unused_variables, clippy::all)]
    use super::*;
    use super::d_kint_i32_ge_le_sym::*;
    pub type Inner = i32;
    pub fn sanitize(x: Inner) -> Inner { x }
    pub type Error = KintI32GeLeSymError;
    pub fn validate(x: &Inner) -> Result<(), Error> { let v = *x; if !(v >= (sym_lo_i32())) { return Err(KintI32GeLeSymError::GreaterOrEqualViolated); } if !(v <= (sym_hi_i32())) { return Err(KintI32GeLeSymError::LessOrEqualViolated); } Ok(()) }
    pub fn try_new(raw: Inner) -> Result<Inner, Error> { let s = sanitize(raw); validate(&s)?; Ok(s) }
    pub fn valid(x: &Inner) -> bool { validate(x).is_ok() }
}
pub mod d_kint_i32_san_nov {
    use super::*;
    #[nutype(sanitize(with = san_i32), derive(Debug, Clone, Copy, PartialEq, Eq, PartialOrd, Ord, Hash, AsRef, Deref, Borrow, Into, From))]
    pub struct KintI32SanNov(i32);
}
pub use d_kint_i32_san_nov::*;
pub mod ref_kint_i32_san_nov {
    #![allow(unused_imports, unused_variables, clippy::all)]
    use super::*;
    use super::d_kint_i32_san_nov::*;
    pub type Inner = i32;
    pub fn sanitize(x: Inner) -> Inner { san_i32(x) }
    pub fn valid(x: &Inner) -> bool { true }
}
pub mod d_kint_u64_ge_le_sym {
    use super::*;
    #[nutype(validate(greater_or_equal = sym_lo_u64(), less_or_equal = sym_hi_u64()), derive(Debug, Clone, Copy, PartialEq, Eq, PartialOrd, Ord, Hash, AsRef, Deref, Borrow, Into, TryFrom))]
    pub struct KintU64GeLeSym(u64);
}
pub use d_kint_u64_ge_le_sym::*;
pub mod ref_kint_u64_ge_le_sym {
    #![allow(unused_imports, unused_variables, clippy::all)]
    use super::*;
    use super::d_kint_u64_ge_le_sym::*;
    pub type Inner = u64;
    pub fn sanitize(x: Inner) -> Inner { x }
    pub type Error = KintU64GeLeSymError;
    pub fn validate(x: &Inner) -> Result<(), Error> { let v = *x; if !(v >= (sym_lo_u64())) { return Err(KintU64GeLeSymError::GreaterOrEqualViolated); } if !(v <= (sym_hi_u64())) { return Err(KintU64GeLeSymError::LessOrEqualViolated); } Ok(()) }
    pub fn try_new(raw: Inner) -> Result<Inner, Error> { let s = sanitize(raw); validate(&s)?; Ok(s) }
    pub fn valid(x: &Inner) -> bool { validate(x).is_ok() }
}
pub mod d_kint_u64_san_nov {
    use super::*;
    #[nutype(sanitize(with = san_u64), derive(Debug, Clone, Copy, PartialEq, Eq, PartialOrd, Ord, Hash, AsRef, Deref, Borrow, Into, From))]
    pub struct KintU64SanNov(u64);
}
pub use d_kint_u64_san_nov::*;
pub mod ref_kint_u64_san_nov {
    #![allow(unused_imports, unused_variables, clippy::all)]
    use super::*;
    use super::d_kint_u64_san_nov::*;
    pub type Inner = u64;
    pub fn sanitize(x: Inner) -> Inner { san_u64(x) }
    pub fn valid(x: &Inner) -> bool { true }
}
pub mod d_kint_i128_ge_le_sym {
    use super::*;
    #[nutype(validate(greater_or_equal = sym_lo_i128(), less_or_equal = sym_hi_i128()), derive(Debug, Clone, Copy, PartialEq, Eq, PartialOrd, Ord, Hash, AsRef, Deref, Borrow, Into, TryFrom))]
    pub struct KintI128GeLeSym(i128);
}
pub use d_kint_i128_ge_le_sym::*;
pub mod ref_kint_i128_ge_le_sym {
    #![allow(unused_imports, unused_variables, clippy::all)]
    use super::*;
    use super::d_kint_i128_ge_le_sym::*;
    pub type Inner = i128;
    pub fn sanitize(x: Inner) -> Inner { x }
    pub type Error = KintI128GeLeSymError;
    pub fn validate(x: &Inner) -> Result<(), Error> { let v = *x; if !(v >= (sym_lo_i128())) { return Err(KintI128GeLeSymError::GreaterOrEqualViolated); } if !(v <= (sym_hi_i128())) { return Err(KintI128GeLeSymError::LessOrEqualViolated); } Ok(()) }
    pub fn try_new(raw: Inner) -> Result<Inner, Error> { let s = sanitize(raw); validate(&s)?; Ok(s) }
    pub fn valid(x: &Inner) -> bool { validate(x).is_ok() }
}
pub mod d_kint_i128_san_nov {
    use super::*;
    #[nutype(sanitize(with = san_i128), derive(Debug, Clone, Copy, PartialEq, Eq, PartialOrd, Ord, Hash, AsRef, Deref, Borrow, Into, From))]
    pub struct KintI128SanNov(i128);
}
pub use d_kint_i128_san_nov::*;
pub mod ref_kint_i128_san_nov {
    #![allow(unused_imports, unused_variables, clippy::all)]
    use super::*;
    use super::d_kint_i128_san_nov::*;
    pub type Inner = i128;
    pub fn sanitize(x: Inner) -> Inner { san_i128(x) }
    pub fn valid(x: &Inner) -> bool { true }
}
pub mod d_kint_usize_ge_le_sym {
    use super::*;
    #[nutype(validate(greater_or_equal = sym_lo_usize(), less_or_equal = sym_hi_usize()), derive(Debug, Clone, Copy, PartialEq, Eq, PartialOrd, Ord, Hash, AsRef, Deref, Borrow, Into, TryFrom))]
    pub struct KintUsizeGeLeSym(usize);
}
pub use d_kint_usize_ge_le_sym::*;
pub mod ref_kint_usize_ge_le_sym {
    #![allow(unused_imports, unused_variables, clippy::all)]
    use super::*;
    use super::d_kint_usize_ge_le_sym::*;
    pub type Inner = usize;
    pub fn sanitize(x: Inner) -> Inner { x }
    pub type Error = KintUsizeGeLeSymError;
    pub fn validate(x: &Inner) -> Result<(), Error> { let v = *x; if !(v >= (sym_lo_usize())) { return Err(KintUsizeGeLeSymError::GreaterOrEqualViolated); } if !(v <= (sym_hi_usize())) { return Err(KintUsizeGeLeSymError::LessOrEqualViolated); } Ok(()) }
    pub fn try_new(raw: Inner) -> Result<Inner, Error> { let s = sanitize(raw); validate(&s)?; Ok(s) }
    pub fn valid(x: &Inner) -> bool { validate(x).is_ok() }
}
pub mod d_kint_usize_san_nov {
    use super::*;
    #[nutype(sanitize(with = san_usize), derive(Debug, Clone, Copy, PartialEq, Eq, PartialOrd, Ord, Hash, AsRef, Deref, Borrow, Into, From))]
    pub struct KintUsizeSanNov(usize);
}
pub use d_kint_usize_san_nov::*;
pub mod ref_kint_usize_san_nov {
    #![allow(unused_imports, unused_variables, clippy::all)]
    use super::*;
    use super::d_kint_usize_san_nov::*;
    pub type Inner = usize;
    pub fn sanitize(x: Inner) -> Inner { san_usize(x) }
    pub fn valid(x: &Inner) -> bool { true }
}
pub mod d_disp_probe_nov {
    use super::*;
    #[nutype(derive(Debug, Display))]
    pub struct DispProbeNov(Probe);
}
pub use d_disp_probe_nov::*;
pub mod ref_disp_probe_nov {
    #![allow(unused_imports, unused_variables, clippy::all)]
    use super::*;
    use super::d_disp_probe_nov::*;
    pub type Inner = Probe;
    pub fn sanitize(x: Inner) -> Inner { x }
    pub fn valid(x: &Inner) -> bool { true }
}
pub mod d_disp_str_tr {
    use super::*;
    #[nutype(sanitize(trim), validate(not_empty), derive(Debug, Display))]
    pub struct DispStrTr(String);
}
pub use d_disp_str_tr::*;
pub mod ref_disp_str_tr {
    #![allow(unused_imports, unused_variables, clippy::all)]
    use super::*;
    use super::d_disp_str_tr::*;
    pub type Inner = String;
    pub fn sanitize(x: Inner) -> Inner { x.trim().to_string() }
    pub type Error = DispStrTrError;
    pub fn validate(x: &Inner) -> Result<(), Error> { if !(x.chars().count() != 0) { return Err(DispStrTrError::NotEmptyViolated); } Ok(()) }
    pub fn try_new(raw: Inner) -> Result<Inner, Error> { let s = sanitize(raw); validate(&s)?; Ok(s) }
    pub fn valid(x: &Inner) -> bool { validate(x).is_ok() }
}
pub mod d_disp_i32_le {
    use super::*;
    #[nutype(validate(less_or_equal = 100), derive(Debug, Display))]
    pub struct DispI32Le(i32);
}
pub use d_disp_i32_le::*;
pub mod ref_disp_i32_le {
    #![allow(unused_imports, unused_variables, clippy::all)]
    use super::*;
    use super::d_disp_i32_le::*;
    pub type Inner = i32;
    pub fn sanitize(x: Inner) -> Inner { x }
    pub type Error = DispI32LeError;
    pub fn validate(x: &Inner) -> Result<(), Error> { let v = *x; if !(v <= ((100 as i32))) { return Err(DispI32LeError::LessOrEqualViolated); } Ok(()) }
    pub fn try_new(raw: Inner) -> Result<Inner, Error> { let s = sanitize(raw); validate(&s)?; Ok(s) }
    pub fn valid(x: &Inner) -> bool { validate(x).is_ok() }
}
pub mod d_iter_arr_nov {
    use super::*;
    #[nutype(derive(Debug, IntoIterator))]
    pub struct IterArrNov([i32; 3]);
}
pub use d_iter_arr_nov::*;
pub mod ref_iter_arr_nov {
    #![allow(unused_imports, unused_variables, clippy::all)]
    use super::*;
    use super::d_iter_arr_nov::*;
    pub type Inner = [i32; 3];
    pub fn sanitize(x: Inner) -> Inner { x }
    pub fn valid(x: &Inner) -> bool { true }
}
pub mod d_iter_arr_san_pred {
    use super::*;
    #[nutype(sanitize(with = san_arr), validate(predicate = pred_arr), derive(Debug, IntoIterator))]
    pub struct IterArrSanPred([i32; 3]);
}
pub use d_iter_arr_san_pred::*;
pub mod ref_iter_arr_san_pred {
    #![allow(unused_imports, unused_variables, clippy::all)]
    use super::*;
    use super::d_iter_arr_san_pred::*;
    pub type Inner = [i32; 3];
    pub fn sanitize(x: Inner) -> Inner { san_arr(x) }
    pub type Error = IterArrSanPredError;
    pub fn validate(x: &Inner) -> Result<(), Error> { if !pred_arr(x) { return Err(IterArrSanPredError::PredicateViolated); } Ok(()) }
    pub fn try_new(raw: Inner) -> Result<Inner, Error> { let s = sanitize(raw); validate(&s)?; Ok(s) }
    pub fn valid(x: &Inner) -> bool { validate(x).is_ok() }
}
pub mod d_strv_tr_ne {
    use super::*;
    #[nutype(sanitize(trim), validate(not_empty), derive(Debug, Clone, PartialEq, Eq, PartialOrd, Ord, Hash, Borrow))]
    pub struct StrvTrNe(String);
}
pub use d_strv_tr_ne::*;
pub mod ref_strv_tr_ne {
    #![allow(unused_imports, unused_variables, clippy::all)]
    use super::*;
    use super::d_strv_tr_ne::*;
    pub type Inner = String;
    pub fn sanitize(x: Inner) -> Inner { x.trim().to_string() }
    pub type Error = StrvTrNeError;
    pub fn validate(x: &Inner) -> Result<(), Error> { if !(x.chars().count() != 0) { return Err(StrvTrNeError::NotEmptyViolated); } Ok(()) }
    pub fn try_new(raw: Inner) -> Result<Inner, Error> { let s = sanitize(raw); validate(&s)?; Ok(s) }
    pub fn valid(x: &Inner) -> bool { validate(x).is_ok() }
}

    pub struct RecHasher { pub log: [u64; 8], pub n: usize }
    impl RecHasher { pub fn new() -> Self { RecHasher { log: [0; 8], n: 0 } } fn push(&mut self, tag: u64, v: u64) { if self.n + 1 < 8 { self.log[self.n] = tag; self.log[self.n + 1] = v; self.n += 2; } else { self.n = 99; } } }
    impl ::core::hash::Hasher for RecHasher {
        fn finish(&self) -> u64 { 0 }
        fn write(&mut self, bytes: &[u8]) { let mut acc = 0u64; let mut i = 0; while i < bytes.len() && i < 16 { acc = acc.wrapping_mul(257).wrapping_add(bytes[i] as u64); i += 1; } self.push(1000 + bytes.len() as u64, acc); }
        fn write_u8(&mut self, i: u8) { self.push(1, i as u64); }
        fn write_u16(&mut self, i: u16) { self.push(2, i as u64); }
        fn write_u32(&mut self, i: u32) { self.push(3, i as u64); }
        fn write_u64(&mut self, i: u64) { self.push(4, i); }
        fn write_u128(&mut self, i: u128) { self.push(5, i as u64); self.push(55, (i >> 64) as u64); }
        fn write_usize(&mut self, i: usize) { self.push(6, i as u64); }
        fn write_i8(&mut self, i: i8) { self.push(7, i as u64); }
        fn write_i16(&mut self, i: i16) { self.push(8, i as u64); }
        fn write_i32(&mut self, i: i32) { self.push(9, i as u64); }
        fn write_i64(&mut self, i: i64) { self.push(10, i as u64); }
        fn write_i128(&mut self, i: i128) { self.push(11, i as u64); self.push(111, ((i as u128) >> 64) as u64); }
        fn write_isize(&mut self, i: isize) { self.push(12, i as u64); }
    }
#[cfg(kani)]
mod harness {
    use super::*;
    #[kani::proof]
    fn k_flt_f32_greater_sym__views() {
        unsafe { SYM_LO_F32 = kani::any(); }
        let raw: f32 = kani::any();
        let v_r = FltF32GreaterSym::try_new(raw);
        kani::assume(v_r.is_ok());
        let v = v_r.unwrap();
        let inner = ref_flt_f32_greater_sym::sanitize(raw).to_bits();
        { let r: &f32 = v.as_ref(); assert!((*r).to_bits() == inner, "as_ref() exposes the stored value"); }
        { let r: &f32 = &*v; assert!((*r).to_bits() == inner, "deref() exposes the stored value"); }
        { let r: &f32 = ::core::borrow::Borrow::borrow(&v); assert!((*r).to_bits() == inner, "borrow() exposes the stored value"); }
        { let c = v.clone(); assert!(c.into_inner().to_bits() == inner, "clone() is an equal value"); }
        { let r: f32 = v.into(); assert!(r.to_bits() == inner, "into() is the stored value"); }

        kani::cover!(true, "reached");
    }
    #[kani::proof]
    fn k_flt_f32_greater_sym__comparisons() {
        unsafe { SYM_LO_F32 = kani::any(); }
        let ra: f32 = kani::any();
        let rb: f32 = kani::any();
        let a_r = FltF32GreaterSym::try_new(ra);
        kani::assume(a_r.is_ok());
        let a = a_r.unwrap();
        let b_r = FltF32GreaterSym::try_new(rb);
        kani::assume(b_r.is_ok());
        let b = b_r.unwrap();
        let ia = ref_flt_f32_greater_sym::sanitize(ra); let ib = ref_flt_f32_greater_sym::sanitize(rb);
        assert!((a == b) == (ia == ib), "== agrees with the inner values");
        assert!((a != b) == (ia != ib), "!= agrees with the inner values");
        assert!(a.partial_cmp(&b) == ia.partial_cmp(&ib), "partial_cmp agrees with the inner values");
        assert!((a < b) == (ia < ib) && (a <= b) == (ia <= ib) && (a > b) == (ia > ib) && (a >= b) == (ia >= ib), "comparison operators agree");

        kani::cover!(true, "reached");
    }
    #[kani::proof]
    fn k_flt_f32_greater_or_equal_sym__views() {
        unsafe { SYM_LO_F32 = kani::any(); }
        let raw: f32 = kani::any();
        let v_r = FltF32GreaterOrEqualSym::try_new(raw);
        kani::assume(v_r.is_ok());
        let v = v_r.unwrap();
        let inner = ref_flt_f32_greater_or_equal_sym::sanitize(raw).to_bits();
        { let r: &f32 = v.as_ref(); assert!((*r).to_bits() == inner, "as_ref() exposes the stored value"); }
        { let r: &f32 = &*v; assert!((*r).to_bits() == inner, "deref() exposes the stored value"); }
        { let r: &f32 = ::core::borrow::Borrow::borrow(&v); assert!((*r).to_bits() == inner, "borrow() exposes the stored value"); }
        { let c = v.clone(); assert!(c.into_inner().to_bits() == inner, "clone() is an equal value"); }
        { let r: f32 = v.into(); assert!(r.to_bits() == inner, "into() is the stored value"); }

        kani::cover!(true, "reached");
    }
    #[kani::proof]
    fn k_flt_f32_greater_or_equal_sym__comparisons() {
        unsafe { SYM_LO_F32 = kani::any(); }
        let ra: f32 = kani::any();
        let rb: f32 = kani::any();
        let a_r = FltF32GreaterOrEqualSym::try_new(ra);
        kani::assume(a_r.is_ok());
        let a = a_r.unwrap();
        let b_r = FltF32GreaterOrEqualSym::try_new(rb);
        kani::assume(b_r.is_ok());
        let b = b_r.unwrap();
        let ia = ref_flt_f32_greater_or_equal_sym::sanitize(ra); let ib = ref_flt_f32_greater_or_equal_sym::sanitize(rb);
        assert!((a == b) == (ia == ib), "== agrees with the inner values");
        assert!((a != b) == (ia != ib), "!= agrees with the inner values");
        assert!(a.partial_cmp(&b) == ia.partial_cmp(&ib), "partial_cmp agrees with the inner values");
        assert!((a < b) == (ia < ib) && (a <= b) == (ia <= ib) && (a > b) == (ia > ib) && (a >= b) == (ia >= ib), "comparison operators agree");

        kani::cover!(true, "reached");
    }
    #[kani::proof]
    fn k_flt_f32_less_sym__views() {
        unsafe { SYM_HI_F32 = kani::any(); }
        let raw: f32 = kani::any();
        let v_r = FltF32LessSym::try_new(raw);
        kani::assume(v_r.is_ok());
        let v = v_r.unwrap();
        let inner = ref_flt_f32_less_sym::sanitize(raw).to_bits();
        { let r: &f32 = v.as_ref(); assert!((*r).to_bits() == inner, "as_ref() exposes the stored value"); }
        { let r: &f32 = &*v; assert!((*r).to_bits() == inner, "deref() exposes the stored value"); }
        { let r: &f32 = ::core::borrow::Borrow::borrow(&v); assert!((*r).to_bits() == inner, "borrow() exposes the stored value"); }
        { let c = v.clone(); assert!(c.into_inner().to_bits() == inner, "clone() is an equal value"); }
        { let r: f32 = v.into(); assert!(r.to_bits() == inner, "into() is the stored value"); }

        kani::cover!(true, "reached");
    }
    #[kani::proof]
    fn k_flt_f32_less_sym__comparisons() {
        unsafe { SYM_HI_F32 = kani::any(); }
        let ra: f32 = kani::any();
        let rb: f32 = kani::any();
        let a_r = FltF32LessSym::try_new(ra);
        kani::assume(a_r.is_ok());
        let a = a_r.unwrap();
        let b_r = FltF32LessSym::try_new(rb);
        kani::assume(b_r.is_ok());
        let b = b_r.unwrap();
        let ia = ref_flt_f32_less_sym::sanitize(ra); let ib = ref_flt_f32_less_sym::sanitize(rb);
        assert!((a == b) == (ia == ib), "== agrees with the inner values");
        assert!((a != b) == (ia != ib), "!= agrees with the inner values");
        assert!(a.partial_cmp(&b) == ia.partial_cmp(&ib), "partial_cmp agrees with the inner values");
        assert!((a < b) == (ia < ib) && (a <= b) == (ia <= ib) && (a > b) == (ia > ib) && (a >= b) == (ia >= ib), "comparison operators agree");

        kani::cover!(true, "reached");
    }
    #[kani::proof]
    fn k_flt_f32_less_or_equal_sym__views() {
        unsafe { SYM_HI_F32 = kani::any(); }
        let raw: f32 = kani::any();
        let v_r = FltF32LessOrEqualSym::try_new(raw);
        kani::assume(v_r.is_ok());
        let v = v_r.unwrap();
        let inner = ref_flt_f32_less_or_equal_sym::sanitize(raw).to_bits();
        { let r: &f32 = v.as_ref(); assert!((*r).to_bits() == inner, "as_ref() exposes the stored value"); }
        { let r: &f32 = &*v; assert!((*r).to_bits() == inner, "deref() exposes the stored value"); }
        { let r: &f32 = ::core::borrow::Borrow::borrow(&v); assert!((*r).to_bits() == inner, "borrow() exposes the stored value"); }
        { let c = v.clone(); assert!(c.into_inner().to_bits() == inner, "clone() is an equal value"); }
        { let r: f32 = v.into(); assert!(r.to_bits() == inner, "into() is the stored value"); }

        kani::cover!(true, "reached");
    }
    #[kani::proof]
    fn k_flt_f32_less_or_equal_sym__comparisons() {
        unsafe { SYM_HI_F32 = kani::any(); }
        let ra: f32 = kani::any();
        let rb: f32 = kani::any();
        let a_r = FltF32LessOrEqualSym::try_new(ra);
        kani::assume(a_r.is_ok());
        let a = a_r.unwrap();
        let b_r = FltF32LessOrEqualSym::try_new(rb);
        kani::assume(b_r.is_ok());
        let b = b_r.unwrap();
        let ia = ref_flt_f32_less_or_equal_sym::sanitize(ra); let ib = ref_flt_f32_less_or_equal_sym::sanitize(rb);
        assert!((a == b) == (ia == ib), "== agrees with the inner values");
        assert!((a != b) == (ia != ib), "!= agrees with the inner values");
        assert!(a.partial_cmp(&b) == ia.partial_cmp(&ib), "partial_cmp agrees with the inner values");
        assert!((a < b) == (ia < ib) && (a <= b) == (ia <= ib) && (a > b) == (ia > ib) && (a >= b) == (ia >= ib), "comparison operators agree");

        kani::cover!(true, "reached");
    }
    #[kani::proof]
    fn k_flt_f32_finite__views() {
        let raw: f32 = kani::any();
        let v_r = FltF32Finite::try_new(raw);
        kani::assume(v_r.is_ok());
        let v = v_r.unwrap();
        let inner = ref_flt_f32_finite::sanitize(raw).to_bits();
        { let r: &f32 = v.as_ref(); assert!((*r).to_bits() == inner, "as_ref() exposes the stored value"); }
        { let r: &f32 = &*v; assert!((*r).to_bits() == inner, "deref() exposes the stored value"); }
        { let r: &f32 = ::core::borrow::Borrow::borrow(&v); assert!((*r).to_bits() == inner, "borrow() exposes the stored value"); }
        { let c = v.clone(); assert!(c.into_inner().to_bits() == inner, "clone() is an equal value"); }
        { let r: f32 = v.into(); assert!(r.to_bits() == inner, "into() is the stored value"); }

        kani::cover!(true, "reached");
    }
    #[kani::proof]
    fn k_flt_f32_finite__comparisons() {
        let ra: f32 = kani::any();
        let rb: f32 = kani::any();
        let a_r = FltF32Finite::try_new(ra);
        kani::assume(a_r.is_ok());
        let a = a_r.unwrap();
        let b_r = FltF32Finite::try_new(rb);
        kani::assume(b_r.is_ok());
        let b = b_r.unwrap();
        let ia = ref_flt_f32_finite::sanitize(ra); let ib = ref_flt_f32_finite::sanitize(rb);
        assert!((a == b) == (ia == ib), "== agrees with the inner values");
        assert!((a != b) == (ia != ib), "!= agrees with the inner values");
        assert!(a.partial_cmp(&b) == ia.partial_cmp(&ib), "partial_cmp agrees with the inner values");
        assert!((a < b) == (ia < ib) && (a <= b) == (ia <= ib) && (a > b) == (ia > ib) && (a >= b) == (ia >= ib), "comparison operators agree");
        assert!(Some(a.cmp(&b)) == ia.partial_cmp(&ib), "cmp agrees with the comparison of the inner floats (incl. -0.0 vs 0.0)");

        kani::cover!(true, "reached");
    }
    #[kani::proof]
    fn k_flt_f32_greater_less_sym__views() {
        unsafe { SYM_LO_F32 = kani::any(); }
        unsafe { SYM_HI_F32 = kani::any(); }
        let raw: f32 = kani::any();
        let v_r = FltF32GreaterLessSym::try_new(raw);
        kani::assume(v_r.is_ok());
        let v = v_r.unwrap();
        let inner = ref_flt_f32_greater_less_sym::sanitize(raw).to_bits();
        { let r: &f32 = v.as_ref(); assert!((*r).to_bits() == inner, "as_ref() exposes the stored value"); }
        { let r: &f32 = &*v; assert!((*r).to_bits() == inner, "deref() exposes the stored value"); }
        { let r: &f32 = ::core::borrow::Borrow::borrow(&v); assert!((*r).to_bits() == inner, "borrow() exposes the stored value"); }
        { let c = v.clone(); assert!(c.into_inner().to_bits() == inner, "clone() is an equal value"); }
        { let r: f32 = v.into(); assert!(r.to_bits() == inner, "into() is the stored value"); }

        kani::cover!(true, "reached");
    }
    #[kani::proof]
    fn k_flt_f32_greater_less_sym__comparisons() {
        unsafe { SYM_LO_F32 = kani::any(); }
        unsafe { SYM_HI_F32 = kani::any(); }
        let ra: f32 = kani::any();
        let rb: f32 = kani::any();
        let a_r = FltF32GreaterLessSym::try_new(ra);
        kani::assume(a_r.is_ok());
        let a = a_r.unwrap();
        let b_r = FltF32GreaterLessSym::try_new(rb);
        kani::assume(b_r.is_ok());
        let b = b_r.unwrap();
        let ia = ref_flt_f32_greater_less_sym::sanitize(ra); let ib = ref_flt_f32_greater_less_sym::sanitize(rb);
        assert!((a == b) == (ia == ib), "== agrees with the inner values");
        assert!((a != b) == (ia != ib), "!= agrees with the inner values");
        assert!(a.partial_cmp(&b) == ia.partial_cmp(&ib), "partial_cmp agrees with the inner values");
        assert!((a < b) == (ia < ib) && (a <= b) == (ia <= ib) && (a > b) == (ia > ib) && (a >= b) == (ia >= ib), "comparison operators agree");

        kani::cover!(true, "reached");
    }
    #[kani::proof]
    fn k_flt_f32_fin_greater_less_sym__views() {
        unsafe { SYM_LO_F32 = kani::any(); }
        unsafe { SYM_HI_F32 = kani::any(); }
        let raw: f32 = kani::any();
        let v_r = FltF32FinGreaterLessSym::try_new(raw);
        kani::assume(v_r.is_ok());
        let v = v_r.unwrap();
        let inner = ref_flt_f32_fin_greater_less_sym::sanitize(raw).to_bits();
        { let r: &f32 = v.as_ref(); assert!((*r).to_bits() == inner, "as_ref() exposes the stored value"); }
        { let r: &f32 = &*v; assert!((*r).to_bits() == inner, "deref() exposes the stored value"); }
        { let r: &f32 = ::core::borrow::Borrow::borrow(&v); assert!((*r).to_bits() == inner, "borrow() exposes the stored value"); }
        { let c = v.clone(); assert!(c.into_inner().to_bits() == inner, "clone() is an equal value"); }
        { let r: f32 = v.into(); assert!(r.to_bits() == inner, "into() is the stored value"); }

        kani::cover!(true, "reached");
    }
    #[kani::proof]
    fn k_flt_f32_fin_greater_less_sym__comparisons() {
        unsafe { SYM_LO_F32 = kani::any(); }
        unsafe { SYM_HI_F32 = kani::any(); }
        let ra: f32 = kani::any();
        let rb: f32 = kani::any();
        let a_r = FltF32FinGreaterLessSym::try_new(ra);
        kani::assume(a_r.is_ok());
        let a = a_r.unwrap();
        let b_r = FltF32FinGreaterLessSym::try_new(rb);
        kani::assume(b_r.is_ok());
        let b = b_r.unwrap();
        let ia = ref_flt_f32_fin_greater_less_sym::sanitize(ra); let ib = ref_flt_f32_fin_greater_less_sym::sanitize(rb);
        assert!((a == b) == (ia == ib), "== agrees with the inner values");
        assert!((a != b) == (ia != ib), "!= agrees with the inner values");
        assert!(a.partial_cmp(&b) == ia.partial_cmp(&ib), "partial_cmp agrees with the inner values");
        assert!((a < b) == (ia < ib) && (a <= b) == (ia <= ib) && (a > b) == (ia > ib) && (a >= b) == (ia >= ib), "comparison operators agree");
        assert!(Some(a.cmp(&b)) == ia.partial_cmp(&ib), "cmp agrees with the comparison of the inner floats (incl. -0.0 vs 0.0)");

        kani::cover!(true, "reached");
    }
    #[kani::proof]
    fn k_flt_f32_greater_less_or_equal_sym__views() {
        unsafe { SYM_LO_F32 = kani::any(); }
        unsafe { SYM_HI_F32 = kani::any(); }
        let raw: f32 = kani::any();
        let v_r = FltF32GreaterLessOrEqualSym::try_new(raw);
        kani::assume(v_r.is_ok());
        let v = v_r.unwrap();
        let inner = ref_flt_f32_greater_less_or_equal_sym::sanitize(raw).to_bits();
        { let r: &f32 = v.as_ref(); assert!((*r).to_bits() == inner, "as_ref() exposes the stored value"); }
        { let r: &f32 = &*v; assert!((*r).to_bits() == inner, "deref() exposes the stored value"); }
        { let r: &f32 = ::core::borrow::Borrow::borrow(&v); assert!((*r).to_bits() == inner, "borrow() exposes the stored value"); }
        { let c = v.clone(); assert!(c.into_inner().to_bits() == inner, "clone() is an equal value"); }
        { let r: f32 = v.into(); assert!(r.to_bits() == inner, "into() is the stored value"); }

        kani::cover!(true, "reached");
    }
    #[kani::proof]
    fn k_flt_f32_greater_less_or_equal_sym__comparisons() {
        unsafe { SYM_LO_F32 = kani::any(); }
        unsafe { SYM_HI_F32 = kani::any(); }
        let ra: f32 = kani::any();
        let rb: f32 = kani::any();
        let a_r = FltF32GreaterLessOrEqualSym::try_new(ra);
        kani::assume(a_r.is_ok());
        let a = a_r.unwrap();
        let b_r = FltF32GreaterLessOrEqualSym::try_new(rb);
        kani::assume(b_r.is_ok());
        let b = b_r.unwrap();
        let ia = ref_flt_f32_greater_less_or_equal_sym::sanitize(ra); let ib = ref_flt_f32_greater_less_or_equal_sym::sanitize(rb);
        assert!((a == b) == (ia == ib), "== agrees with the inner values");
        assert!((a != b) == (ia != ib), "!= agrees with the inner values");
        assert!(a.partial_cmp(&b) == ia.partial_cmp(&ib), "partial_cmp agrees with the inner values");
        assert!((a < b) == (ia < ib) && (a <= b) == (ia <= ib) && (a > b) == (ia > ib) && (a >= b) == (ia >= ib), "comparison operators agree");

        kani::cover!(true, "reached");
    }
    #[kani::proof]
    fn k_flt_f32_fin_greater_less_or_equal_sym__views() {
        unsafe { SYM_LO_F32 = kani::any(); }
        unsafe { SYM_HI_F32 = kani::any(); }
        let raw: f32 = kani::any();
        let v_r = FltF32FinGreaterLessOrEqualSym::try_new(raw);
        kani::assume(v_r.is_ok());
        let v = v_r.unwrap();
        let inner = ref_flt_f32_fin_greater_less_or_equal_sym::sanitize(raw).to_bits();
        { let r: &f32 = v.as_ref(); assert!((*r).to_bits() == inner, "as_ref() exposes the stored value"); }
        { let r: &f32 = &*v; assert!((*r).to_bits() == inner, "deref() exposes the stored value"); }
        { let r: &f32 = ::core::borrow::Borrow::borrow(&v); assert!((*r).to_bits() == inner, "borrow() exposes the stored value"); }
        { let c = v.clone(); assert!(c.into_inner().to_bits() == inner, "clone() is an equal value"); }
        { let r: f32 = v.into(); assert!(r.to_bits() == inner, "into() is the stored value"); }

        kani::cover!(true, "reached");
    }
    #[kani::proof]
    fn k_flt_f32_fin_greater_less_or_equal_sym__comparisons() {
        unsafe { SYM_LO_F32 = kani::any(); }
        unsafe { SYM_HI_F32 = kani::any(); }
        let ra: f32 = kani::any();
        let rb: f32 = kani::any();
        let a_r = FltF32FinGreaterLessOrEqualSym::try_new(ra);
        kani::assume(a_r.is_ok());
        let a = a_r.unwrap();
        let b_r = FltF32FinGreaterLessOrEqualSym::try_new(rb);
        kani::assume(b_r.is_ok());
        let b = b_r.unwrap();
        let ia = ref_flt_f32_fin_greater_less_or_equal_sym::sanitize(ra); let ib = ref_flt_f32_fin_greater_less_or_equal_sym::sanitize(rb);
        assert!((a == b) == (ia == ib), "== agrees with the inner values");
        assert!((a != b) == (ia != ib), "!= agrees with the inner values");
        assert!(a.partial_cmp(&b) == ia.partial_cmp(&ib), "partial_cmp agrees with the inner values");
        assert!((a < b) == (ia < ib) && (a <= b) == (ia <= ib) && (a > b) == (ia > ib) && (a >= b) == (ia >= ib), "comparison operators agree");
        assert!(Some(a.cmp(&b)) == ia.partial_cmp(&ib), "cmp agrees with the comparison of the inner floats (incl. -0.0 vs 0.0)");

        kani::cover!(true, "reached");
    }
    #[kani::proof]
    fn k_flt_f32_greater_or_equal_less_sym__views() {
        unsafe { SYM_LO_F32 = kani::any(); }
        unsafe { SYM_HI_F32 = kani::any(); }
        let raw: f32 = kani::any();
        let v_r = FltF32GreaterOrEqualLessSym::try_new(raw);
        kani::assume(v_r.is_ok());
        let v = v_r.unwrap();
        let inner = ref_flt_f32_greater_or_equal_less_sym::sanitize(raw).to_bits();
        { let r: &f32 = v.as_ref(); assert!((*r).to_bits() == inner, "as_ref() exposes the stored value"); }
        { let r: &f32 = &*v; assert!((*r).to_bits() == inner, "deref() exposes the stored value"); }
        { let r: &f32 = ::core::borrow::Borrow::borrow(&v); assert!((*r).to_bits() == inner, "borrow() exposes the stored value"); }
        { let c = v.clone(); assert!(c.into_inner().to_bits() == inner, "clone() is an equal value"); }
        { let r: f32 = v.into(); assert!(r.to_bits() == inner, "into() is the stored value"); }

        kani::cover!(true, "reached");
    }
    #[kani::proof]
    fn k_flt_f32_greater_or_equal_less_sym__comparisons() {
        unsafe { SYM_LO_F32 = kani::any(); }
        unsafe { SYM_HI_F32 = kani::any(); }
        let ra: f32 = kani::any();
        let rb: f32 = kani::any();
        let a_r = FltF32GreaterOrEqualLessSym::try_new(ra);
        kani::assume(a_r.is_ok());
        let a = a_r.unwrap();
        let b_r = FltF32GreaterOrEqualLessSym::try_new(rb);
        kani::assume(b_r.is_ok());
        let b = b_r.unwrap();
        let ia = ref_flt_f32_greater_or_equal_less_sym::sanitize(ra); let ib = ref_flt_f32_greater_or_equal_less_sym::sanitize(rb);
        assert!((a == b) == (ia == ib), "== agrees with the inner values");
        assert!((a != b) == (ia != ib), "!= agrees with the inner values");
        assert!(a.partial_cmp(&b) == ia.partial_cmp(&ib), "partial_cmp agrees with the inner values");
        assert!((a < b) == (ia < ib) && (a <= b) == (ia <= ib) && (a > b) == (ia > ib) && (a >= b) == (ia >= ib), "comparison operators agree");

        kani::cover!(true, "reached");
    }
    #[kani::proof]
    fn k_flt_f32_fin_greater_or_equal_less_sym__views() {
        unsafe { SYM_LO_F32 = kani::any(); }
        unsafe { SYM_HI_F32 = kani::any(); }
        let raw: f32 = kani::any();
        let v_r = FltF32FinGreaterOrEqualLessSym::try_new(raw);
        kani::assume(v_r.is_ok());
        let v = v_r.unwrap();
        let inner = ref_flt_f32_fin_greater_or_equal_less_sym::sanitize(raw).to_bits();
        { let r: &f32 = v.as_ref(); assert!((*r).to_bits() == inner, "as_ref() exposes the stored value"); }
        { let r: &f32 = &*v; assert!((*r).to_bits() == inner, "deref() exposes the stored value"); }
        { let r: &f32 = ::core::borrow::Borrow::borrow(&v); assert!((*r).to_bits() == inner, "borrow() exposes the stored value"); }
        { let c = v.clone(); assert!(c.into_inner().to_bits() == inner, "clone() is an equal value"); }
        { let r: f32 = v.into(); assert!(r.to_bits() == inner, "into() is the stored value"); }

        kani::cover!(true, "reached");
    }
    #[kani::proof]
    fn k_flt_f32_fin_greater_or_equal_less_sym__comparisons() {
        unsafe { SYM_LO_F32 = kani::any(); }
        unsafe { SYM_HI_F32 = kani::any(); }
        let ra: f32 = kani::any();
        let rb: f32 = kani::any();
        let a_r = FltF32FinGreaterOrEqualLessSym::try_new(ra);
        kani::assume(a_r.is_ok());
        let a = a_r.unwrap();
        let b_r = FltF32FinGreaterOrEqualLessSym::try_new(rb);
        kani::assume(b_r.is_ok());
        let b = b_r.unwrap();
        let ia = ref_flt_f32_fin_greater_or_equal_less_sym::sanitize(ra); let ib = ref_flt_f32_fin_greater_or_equal_less_sym::sanitize(rb);
        assert!((a == b) == (ia == ib), "== agrees with the inner values");
        assert!((a != b) == (ia != ib), "!= agrees with the inner values");
        assert!(a.partial_cmp(&b) == ia.partial_cmp(&ib), "partial_cmp agrees with the inner values");
        assert!((a < b) == (ia < ib) && (a <= b) == (ia <= ib) && (a > b) == (ia > ib) && (a >= b) == (ia >= ib), "comparison operators agree");
        assert!(Some(a.cmp(&b)) == ia.partial_cmp(&ib), "cmp agrees with the comparison of the inner floats (incl. -0.0 vs 0.0)");

        kani::cover!(true, "reached");
    }
    #[kani::proof]
    fn k_flt_f32_greater_or_equal_less_or_equal_sym__views() {
        unsafe { SYM_LO_F32 = kani::any(); }
        unsafe { SYM_HI_F32 = kani::any(); }
        let raw: f32 = kani::any();
        let v_r = FltF32GreaterOrEqualLessOrEqualSym::try_new(raw);
        kani::assume(v_r.is_ok());
        let v = v_r.unwrap();
        let inner = ref_flt_f32_greater_or_equal_less_or_equal_sym::sanitize(raw).to_bits();
        { let r: &f32 = v.as_ref(); assert!((*r).to_bits() == inner, "as_ref() exposes the stored value"); }
        { let r: &f32 = &*v; assert!((*r).to_bits() == inner, "deref() exposes the stored value"); }
        { let r: &f32 = ::core::borrow::Borrow::borrow(&v); assert!((*r).to_bits() == inner, "borrow() exposes the stored value"); }
        { let c = v.clone(); assert!(c.into_inner().to_bits() == inner, "clone() is an equal value"); }
        { let r: f32 = v.into(); assert!(r.to_bits() == inner, "into() is the stored value"); }

        kani::cover!(true, "reached");
    }
    #[kani::proof]
    fn k_flt_f32_greater_or_equal_less_or_equal_sym__comparisons() {
        unsafe { SYM_LO_F32 = kani::any(); }
        unsafe { SYM_HI_F32 = kani::any(); }
        let ra: f32 = kani::any();
        let rb: f32 = kani::any();
        let a_r = FltF32GreaterOrEqualLessOrEqualSym::try_new(ra);
        kani::assume(a_r.is_ok());
        let a = a_r.unwrap();
        let b_r = FltF32GreaterOrEqualLessOrEqualSym::try_new(rb);
        kani::assume(b_r.is_ok());
        let b = b_r.unwrap();
        let ia = ref_flt_f32_greater_or_equal_less_or_equal_sym::sanitize(ra); let ib = ref_flt_f32_greater_or_equal_less_or_equal_sym::sanitize(rb);
        assert!((a == b) == (ia == ib), "== agrees with the inner values");
        assert!((a != b) == (ia != ib), "!= agrees with the inner values");
        assert!(a.partial_cmp(&b) == ia.partial_cmp(&ib), "partial_cmp agrees with the inner values");
        assert!((a < b) == (ia < ib) && (a <= b) == (ia <= ib) && (a > b) == (ia > ib) && (a >= b) == (ia >= ib), "comparison operators agree");

        kani::cover!(true, "reached");
    }
    #[kani::proof]
    fn k_flt_f32_fin_greater_or_equal_less_or_equal_sym__views() {
        unsafe { SYM_LO_F32 = kani::any(); }
        unsafe { SYM_HI_F32 = kani::any(); }
        let raw: f32 = kani::any();
        let v_r = FltF32FinGreaterOrEqualLessOrEqualSym::try_new(raw);
        kani::assume(v_r.is_ok());
        let v = v_r.unwrap();
        let inner = ref_flt_f32_fin_greater_or_equal_less_or_equal_sym::sanitize(raw).to_bits();
        { let r: &f32 = v.as_ref(); assert!((*r).to_bits() == inner, "as_ref() exposes the stored value"); }
        { let r: &f32 = &*v; assert!((*r).to_bits() == inner, "deref() exposes the stored value"); }
        { let r: &f32 = ::core::borrow::Borrow::borrow(&v); assert!((*r).to_bits() == inner, "borrow() exposes the stored value"); }
        { let c = v.clone(); assert!(c.into_inner().to_bits() == inner, "clone() is an equal value"); }
        { let r: f32 = v.into(); assert!(r.to_bits() == inner, "into() is the stored value"); }

        kani::cover!(true, "reached");
    }
    #[kani::proof]
    fn k_flt_f32_fin_greater_or_equal_less_or_equal_sym__comparisons() {
        unsafe { SYM_LO_F32 = kani::any(); }
        unsafe { SYM_HI_F32 = kani::any(); }
        let ra: f32 = kani::any();
        let rb: f32 = kani::any();
        let a_r = FltF32FinGreaterOrEqualLessOrEqualSym::try_new(ra);
        kani::assume(a_r.is_ok());
        let a = a_r.unwrap();
        let b_r = FltF32FinGreaterOrEqualLessOrEqualSym::try_new(rb);
        kani::assume(b_r.is_ok());
        let b = b_r.unwrap();
        let ia = ref_flt_f32_fin_greater_or_equal_less_or_equal_sym::sanitize(ra); let ib = ref_flt_f32_fin_greater_or_equal_less_or_equal_sym::sanitize(rb);
        assert!((a == b) == (ia == ib), "== agrees with the inner values");
        assert!((a != b) == (ia != ib), "!= agrees with the inner values");
        assert!(a.partial_cmp(&b) == ia.partial_cmp(&ib), "partial_cmp agrees with the inner values");
        assert!((a < b) == (ia < ib) && (a <= b) == (ia <= ib) && (a > b) == (ia > ib) && (a >= b) == (ia >= ib), "comparison operators agree");
        assert!(Some(a.cmp(&b)) == ia.partial_cmp(&ib), "cmp agrees with the comparison of the inner floats (incl. -0.0 vs 0.0)");

        kani::cover!(true, "reached");
    }
    #[kani::proof]
    fn k_flt_f32_le_ge_fin_sym__views() {
        unsafe { SYM_LO_F32 = kani::any(); }
        unsafe { SYM_HI_F32 = kani::any(); }
        let raw: f32 = kani::any();
        let v_r = FltF32LeGeFinSym::try_new(raw);
        kani::assume(v_r.is_ok());
        let v = v_r.unwrap();
        let inner = ref_flt_f32_le_ge_fin_sym::sanitize(raw).to_bits();
        { let r: &f32 = v.as_ref(); assert!((*r).to_bits() == inner, "as_ref() exposes the stored value"); }
        { let r: &f32 = &*v; assert!((*r).to_bits() == inner, "deref() exposes the stored value"); }
        { let r: &f32 = ::core::borrow::Borrow::borrow(&v); assert!((*r).to_bits() == inner, "borrow() exposes the stored value"); }
        { let c = v.clone(); assert!(c.into_inner().to_bits() == inner, "clone() is an equal value"); }
        { let r: f32 = v.into(); assert!(r.to_bits() == inner, "into() is the stored value"); }

        kani::cover!(true, "reached");
    }
    #[kani::proof]
    fn k_flt_f32_le_ge_fin_sym__comparisons() {
        unsafe { SYM_LO_F32 = kani::any(); }
        unsafe { SYM_HI_F32 = kani::any(); }
        let ra: f32 = kani::any();
        let rb: f32 = kani::any();
        let a_r = FltF32LeGeFinSym::try_new(ra);
        kani::assume(a_r.is_ok());
        let a = a_r.unwrap();
        let b_r = FltF32LeGeFinSym::try_new(rb);
        kani::assume(b_r.is_ok());
        let b = b_r.unwrap();
        let ia = ref_flt_f32_le_ge_fin_sym::sanitize(ra); let ib = ref_flt_f32_le_ge_fin_sym::sanitize(rb);
        assert!((a == b) == (ia == ib), "== agrees with the inner values");
        assert!((a != b) == (ia != ib), "!= agrees with the inner values");
        assert!(a.partial_cmp(&b) == ia.partial_cmp(&ib), "partial_cmp agrees with the inner values");
        assert!((a < b) == (ia < ib) && (a <= b) == (ia <= ib) && (a > b) == (ia > ib) && (a >= b) == (ia >= ib), "comparison operators agree");
        assert!(Some(a.cmp(&b)) == ia.partial_cmp(&ib), "cmp agrees with the comparison of the inner floats (incl. -0.0 vs 0.0)");

        kani::cover!(true, "reached");
    }
    #[kani::proof]
    fn k_flt_f32_pred_lt_fin__views() {
        unsafe { SYM_HI_F32 = kani::any(); }
        let raw: f32 = kani::any();
        let v_r = FltF32PredLtFin::try_new(raw);
        kani::assume(v_r.is_ok());
        let v = v_r.unwrap();
        let inner = ref_flt_f32_pred_lt_fin::sanitize(raw).to_bits();
        { let r: &f32 = v.as_ref(); assert!((*r).to_bits() == inner, "as_ref() exposes the stored value"); }
        { let r: &f32 = &*v; assert!((*r).to_bits() == inner, "deref() exposes the stored value"); }
        { let r: &f32 = ::core::borrow::Borrow::borrow(&v); assert!((*r).to_bits() == inner, "borrow() exposes the stored value"); }
        { let c = v.clone(); assert!(c.into_inner().to_bits() == inner, "clone() is an equal value"); }
        { let r: f32 = v.into(); assert!(r.to_bits() == inner, "into() is the stored value"); }

        kani::cover!(true, "reached");
    }
    #[kani::proof]
    fn k_flt_f32_pred_lt_fin__comparisons() {
        unsafe { SYM_HI_F32 = kani::any(); }
        let ra: f32 = kani::any();
        let rb: f32 = kani::any();
        let a_r = FltF32PredLtFin::try_new(ra);
        kani::assume(a_r.is_ok());
        let a = a_r.unwrap();
        let b_r = FltF32PredLtFin::try_new(rb);
        kani::assume(b_r.is_ok());
        let b = b_r.unwrap();
        let ia = ref_flt_f32_pred_lt_fin::sanitize(ra); let ib = ref_flt_f32_pred_lt_fin::sanitize(rb);
        assert!((a == b) == (ia == ib), "== agrees with the inner values");
        assert!((a != b) == (ia != ib), "!= agrees with the inner values");
        assert!(a.partial_cmp(&b) == ia.partial_cmp(&ib), "partial_cmp agrees with the inner values");
        assert!((a < b) == (ia < ib) && (a <= b) == (ia <= ib) && (a > b) == (ia > ib) && (a >= b) == (ia >= ib), "comparison operators agree");
        assert!(Some(a.cmp(&b)) == ia.partial_cmp(&ib), "cmp agrees with the comparison of the inner floats (incl. -0.0 vs 0.0)");

        kani::cover!(true, "reached");
    }
    #[kani::proof]
    fn k_flt_f32_custom__views() {
        let raw: f32 = kani::any();
        let v_r = FltF32Custom::try_new(raw);
        kani::assume(v_r.is_ok());
        let v = v_r.unwrap();
        let inner = ref_flt_f32_custom::sanitize(raw).to_bits();
        { let r: &f32 = v.as_ref(); assert!((*r).to_bits() == inner, "as_ref() exposes the stored value"); }
        { let r: &f32 = &*v; assert!((*r).to_bits() == inner, "deref() exposes the stored value"); }
        { let r: &f32 = ::core::borrow::Borrow::borrow(&v); assert!((*r).to_bits() == inner, "borrow() exposes the stored value"); }
        { let c = v.clone(); assert!(c.into_inner().to_bits() == inner, "clone() is an equal value"); }
        { let r: f32 = v.into(); assert!(r.to_bits() == inner, "into() is the stored value"); }

        kani::cover!(true, "reached");
    }
    #[kani::proof]
    fn k_flt_f32_custom__comparisons() {
        let ra: f32 = kani::any();
        let rb: f32 = kani::any();
        let a_r = FltF32Custom::try_new(ra);
        kani::assume(a_r.is_ok());
        let a = a_r.unwrap();
        let b_r = FltF32Custom::try_new(rb);
        kani::assume(b_r.is_ok());
        let b = b_r.unwrap();
        let ia = ref_flt_f32_custom::sanitize(ra); let ib = ref_flt_f32_custom::sanitize(rb);
        assert!((a == b) == (ia == ib), "== agrees with the inner values");
        assert!((a != b) == (ia != ib), "!= agrees with the inner values");
        assert!(a.partial_cmp(&b) == ia.partial_cmp(&ib), "partial_cmp agrees with the inner values");
        assert!((a < b) == (ia < ib) && (a <= b) == (ia <= ib) && (a > b) == (ia > ib) && (a >= b) == (ia >= ib), "comparison operators agree");

        kani::cover!(true, "reached");
    }
    #[kani::proof]
    fn k_flt_f32_san_fin_le__views() {
        unsafe { SYM_HI_F32 = kani::any(); }
        let raw: f32 = kani::any();
        let v_r = FltF32SanFinLe::try_new(raw);
        kani::assume(v_r.is_ok());
        let v = v_r.unwrap();
        let inner = ref_flt_f32_san_fin_le::sanitize(raw).to_bits();
        { let r: &f32 = v.as_ref(); assert!((*r).to_bits() == inner, "as_ref() exposes the stored value"); }
        { let r: &f32 = &*v; assert!((*r).to_bits() == inner, "deref() exposes the stored value"); }
        { let r: &f32 = ::core::borrow::Borrow::borrow(&v); assert!((*r).to_bits() == inner, "borrow() exposes the stored value"); }
        { let c = v.clone(); assert!(c.into_inner().to_bits() == inner, "clone() is an equal value"); }
        { let r: f32 = v.into(); assert!(r.to_bits() == inner, "into() is the stored value"); }

        kani::cover!(true, "reached");
    }
    #[kani::proof]
    fn k_flt_f32_san_fin_le__comparisons() {
        unsafe { SYM_HI_F32 = kani::any(); }
        let ra: f32 = kani::any();
        let rb: f32 = kani::any();
        let a_r = FltF32SanFinLe::try_new(ra);
        kani::assume(a_r.is_ok());
        let a = a_r.unwrap();
        let b_r = FltF32SanFinLe::try_new(rb);
        kani::assume(b_r.is_ok());
        let b = b_r.unwrap();
        let ia = ref_flt_f32_san_fin_le::sanitize(ra); let ib = ref_flt_f32_san_fin_le::sanitize(rb);
        assert!((a == b) == (ia == ib), "== agrees with the inner values");
        assert!((a != b) == (ia != ib), "!= agrees with the inner values");
        assert!(a.partial_cmp(&b) == ia.partial_cmp(&ib), "partial_cmp agrees with the inner values");
        assert!((a < b) == (ia < ib) && (a <= b) == (ia <= ib) && (a > b) == (ia > ib) && (a >= b) == (ia >= ib), "comparison operators agree");
        assert!(Some(a.cmp(&b)) == ia.partial_cmp(&ib), "cmp agrees with the comparison of the inner floats (incl. -0.0 vs 0.0)");

        kani::cover!(true, "reached");
    }
    #[kani::proof]
    fn k_flt_f32_san_nov__views() {
        let raw: f32 = kani::any();
        let v = FltF32SanNov::new(raw);
        let inner = ref_flt_f32_san_nov::sanitize(raw).to_bits();
        { let r: &f32 = v.as_ref(); assert!((*r).to_bits() == inner, "as_ref() exposes the stored value"); }
        { let r: &f32 = &*v; assert!((*r).to_bits() == inner, "deref() exposes the stored value"); }
        { let r: &f32 = ::core::borrow::Borrow::borrow(&v); assert!((*r).to_bits() == inner, "borrow() exposes the stored value"); }
        { let c = v.clone(); assert!(c.into_inner().to_bits() == inner, "clone() is an equal value"); }
        { let r: f32 = v.into(); assert!(r.to_bits() == inner, "into() is the stored value"); }

        kani::cover!(true, "reached");
    }
    #[kani::proof]
    fn k_flt_f32_san_nov__comparisons() {
        let ra: f32 = kani::any();
        let rb: f32 = kani::any();
        let a = FltF32SanNov::new(ra);
        let b = FltF32SanNov::new(rb);
        let ia = ref_flt_f32_san_nov::sanitize(ra); let ib = ref_flt_f32_san_nov::sanitize(rb);
        assert!((a == b) == (ia == ib), "== agrees with the inner values");
        assert!((a != b) == (ia != ib), "!= agrees with the inner values");
        assert!(a.partial_cmp(&b) == ia.partial_cmp(&ib), "partial_cmp agrees with the inner values");
        assert!((a < b) == (ia < ib) && (a <= b) == (ia <= ib) && (a > b) == (ia > ib) && (a >= b) == (ia >= ib), "comparison operators agree");

        kani::cover!(true, "reached");
    }
    #[kani::proof]
    fn k_flt_f32_san3_fin_le__views() {
        unsafe { SYM_HI_F32 = kani::any(); }
        let raw: f32 = kani::any();
        let v_r = FltF32San3FinLe::try_new(raw);
        kani::assume(v_r.is_ok());
        let v = v_r.unwrap();
        let inner = ref_flt_f32_san3_fin_le::sanitize(raw).to_bits();
        { let r: &f32 = v.as_ref(); assert!((*r).to_bits() == inner, "as_ref() exposes the stored value"); }
        { let r: &f32 = &*v; assert!((*r).to_bits() == inner, "deref() exposes the stored value"); }
        { let r: &f32 = ::core::borrow::Borrow::borrow(&v); assert!((*r).to_bits() == inner, "borrow() exposes the stored value"); }
        { let c = v.clone(); assert!(c.into_inner().to_bits() == inner, "clone() is an equal value"); }
        { let r: f32 = v.into(); assert!(r.to_bits() == inner, "into() is the stored value"); }

        kani::cover!(true, "reached");
    }
    #[kani::proof]
    fn k_flt_f32_san3_fin_le__comparisons() {
        unsafe { SYM_HI_F32 = kani::any(); }
        let ra: f32 = kani::any();
        let rb: f32 = kani::any();
        let a_r = FltF32San3FinLe::try_new(ra);
        kani::assume(a_r.is_ok());
        let a = a_r.unwrap();
        let b_r = FltF32San3FinLe::try_new(rb);
        kani::assume(b_r.is_ok());
        let b = b_r.unwrap();
        let ia = ref_flt_f32_san3_fin_le::sanitize(ra); let ib = ref_flt_f32_san3_fin_le::sanitize(rb);
        assert!((a == b) == (ia == ib), "== agrees with the inner values");
        assert!((a != b) == (ia != ib), "!= agrees with the inner values");
        assert!(a.partial_cmp(&b) == ia.partial_cmp(&ib), "partial_cmp agrees with the inner values");
        assert!((a < b) == (ia < ib) && (a <= b) == (ia <= ib) && (a > b) == (ia > ib) && (a >= b) == (ia >= ib), "comparison operators agree");
        assert!(Some(a.cmp(&b)) == ia.partial_cmp(&ib), "cmp agrees with the comparison of the inner floats (incl. -0.0 vs 0.0)");

        kani::cover!(true, "reached");
    }
    #[kani::proof]
    fn k_flt_f32_san_nov_tf__views() {
        let raw: f32 = kani::any();
        let v = FltF32SanNovTf::new(raw);
        let inner = ref_flt_f32_san_nov_tf::sanitize(raw).to_bits();
        { let r: &f32 = v.as_ref(); assert!((*r).to_bits() == inner, "as_ref() exposes the stored value"); }
        { let r: &f32 = &*v; assert!((*r).to_bits() == inner, "deref() exposes the stored value"); }
        { let r: &f32 = ::core::borrow::Borrow::borrow(&v); assert!((*r).to_bits() == inner, "borrow() exposes the stored value"); }
        { let c = v.clone(); assert!(c.into_inner().to_bits() == inner, "clone() is an equal value"); }
        { let r: f32 = v.into(); assert!(r.to_bits() == inner, "into() is the stored value"); }

        kani::cover!(true, "reached");
    }
    #[kani::proof]
    fn k_flt_f32_san_nov_tf__comparisons() {
        let ra: f32 = kani::any();
        let rb: f32 = kani::any();
        let a = FltF32SanNovTf::new(ra);
        let b = FltF32SanNovTf::new(rb);
        let ia = ref_flt_f32_san_nov_tf::sanitize(ra); let ib = ref_flt_f32_san_nov_tf::sanitize(rb);
        assert!((a == b) == (ia == ib), "== agrees with the inner values");
        assert!((a != b) == (ia != ib), "!= agrees with the inner values");
        assert!(a.partial_cmp(&b) == ia.partial_cmp(&ib), "partial_cmp agrees with the inner values");
        assert!((a < b) == (ia < ib) && (a <= b) == (ia <= ib) && (a > b) == (ia > ib) && (a >= b) == (ia >= ib), "comparison operators agree");

        kani::cover!(true, "reached");
    }
    #[kani::proof]
    fn k_flt_f32_nothing__views() {
        let raw: f32 = kani::any();
        let v = FltF32Nothing::new(raw);
        let inner = ref_flt_f32_nothing::sanitize(raw).to_bits();
        { let r: &f32 = v.as_ref(); assert!((*r).to_bits() == inner, "as_ref() exposes the stored value"); }
        { let r: &f32 = &*v; assert!((*r).to_bits() == inner, "deref() exposes the stored value"); }
        { let r: &f32 = ::core::borrow::Borrow::borrow(&v); assert!((*r).to_bits() == inner, "borrow() exposes the stored value"); }
        { let c = v.clone(); assert!(c.into_inner().to_bits() == inner, "clone() is an equal value"); }
        { let r: f32 = v.into(); assert!(r.to_bits() == inner, "into() is the stored value"); }

        kani::cover!(true, "reached");
    }
    #[kani::proof]
    fn k_flt_f32_nothing__comparisons() {
        let ra: f32 = kani::any();
        let rb: f32 = kani::any();
        let a = FltF32Nothing::new(ra);
        let b = FltF32Nothing::new(rb);
        let ia = ref_flt_f32_nothing::sanitize(ra); let ib = ref_flt_f32_nothing::sanitize(rb);
        assert!((a == b) == (ia == ib), "== agrees with the inner values");
        assert!((a != b) == (ia != ib), "!= agrees with the inner values");
        assert!(a.partial_cmp(&b) == ia.partial_cmp(&ib), "partial_cmp agrees with the inner values");
        assert!((a < b) == (ia < ib) && (a <= b) == (ia <= ib) && (a > b) == (ia > ib) && (a >= b) == (ia >= ib), "comparison operators agree");

        kani::cover!(true, "reached");
    }
    #[kani::proof]
    fn k_flt_f32_greater_or_equal_lit_zero__views() {
        let raw: f32 = kani::any();
        let v_r = FltF32GreaterOrEqualLitZero::try_new(raw);
        kani::assume(v_r.is_ok());
        let v = v_r.unwrap();
        let inner = ref_flt_f32_greater_or_equal_lit_zero::sanitize(raw).to_bits();
        { let r: &f32 = v.as_ref(); assert!((*r).to_bits() == inner, "as_ref() exposes the stored value"); }
        { let r: &f32 = &*v; assert!((*r).to_bits() == inner, "deref() exposes the stored value"); }
        { let r: &f32 = ::core::borrow::Borrow::borrow(&v); assert!((*r).to_bits() == inner, "borrow() exposes the stored value"); }
        { let c = v.clone(); assert!(c.into_inner().to_bits() == inner, "clone() is an equal value"); }
        { let r: f32 = v.into(); assert!(r.to_bits() == inner, "into() is the stored value"); }

        kani::cover!(true, "reached");
    }
    #[kani::proof]
    fn k_flt_f32_greater_or_equal_lit_zero__comparisons() {
        let ra: f32 = kani::any();
        let rb: f32 = kani::any();
        let a_r = FltF32GreaterOrEqualLitZero::try_new(ra);
        kani::assume(a_r.is_ok());
        let a = a_r.unwrap();
        let b_r = FltF32GreaterOrEqualLitZero::try_new(rb);
        kani::assume(b_r.is_ok());
        let b = b_r.unwrap();
        let ia = ref_flt_f32_greater_or_equal_lit_zero::sanitize(ra); let ib = ref_flt_f32_greater_or_equal_lit_zero::sanitize(rb);
        assert!((a == b) == (ia == ib), "== agrees with the inner values");
        assert!((a != b) == (ia != ib), "!= agrees with the inner values");
        assert!(a.partial_cmp(&b) == ia.partial_cmp(&ib), "partial_cmp agrees with the inner values");
        assert!((a < b) == (ia < ib) && (a <= b) == (ia <= ib) && (a > b) == (ia > ib) && (a >= b) == (ia >= ib), "comparison operators agree");

        kani::cover!(true, "reached");
    }
    #[kani::proof]
    fn k_flt_f32_greater_lit_negzero__views() {
        let raw: f32 = kani::any();
        let v_r = FltF32GreaterLitNegzero::try_new(raw);
        kani::assume(v_r.is_ok());
        let v = v_r.unwrap();
        let inner = ref_flt_f32_greater_lit_negzero::sanitize(raw).to_bits();
        { let r: &f32 = v.as_ref(); assert!((*r).to_bits() == inner, "as_ref() exposes the stored value"); }
        { let r: &f32 = &*v; assert!((*r).to_bits() == inner, "deref() exposes the stored value"); }
        { let r: &f32 = ::core::borrow::Borrow::borrow(&v); assert!((*r).to_bits() == inner, "borrow() exposes the stored value"); }
        { let c = v.clone(); assert!(c.into_inner().to_bits() == inner, "clone() is an equal value"); }
        { let r: f32 = v.into(); assert!(r.to_bits() == inner, "into() is the stored value"); }

        kani::cover!(true, "reached");
    }
    #[kani::proof]
    fn k_flt_f32_greater_lit_negzero__comparisons() {
        let ra: f32 = kani::any();
        let rb: f32 = kani::any();
        let a_r = FltF32GreaterLitNegzero::try_new(ra);
        kani::assume(a_r.is_ok());
        let a = a_r.unwrap();
        let b_r = FltF32GreaterLitNegzero::try_new(rb);
        kani::assume(b_r.is_ok());
        let b = b_r.unwrap();
        let ia = ref_flt_f32_greater_lit_negzero::sanitize(ra); let ib = ref_flt_f32_greater_lit_negzero::sanitize(rb);
        assert!((a == b) == (ia == ib), "== agrees with the inner values");
        assert!((a != b) == (ia != ib), "!= agrees with the inner values");
        assert!(a.partial_cmp(&b) == ia.partial_cmp(&ib), "partial_cmp agrees with the inner values");
        assert!((a < b) == (ia < ib) && (a <= b) == (ia <= ib) && (a > b) == (ia > ib) && (a >= b) == (ia >= ib), "comparison operators agree");

        kani::cover!(true, "reached");
    }
    #[kani::proof]
    fn k_flt_f32_less_lit_big__views() {
        let raw: f32 = kani::any();
        let v_r = FltF32LessLitBig::try_new(raw);
        kani::assume(v_r.is_ok());
        let v = v_r.unwrap();
        let inner = ref_flt_f32_less_lit_big::sanitize(raw).to_bits();
        { let r: &f32 = v.as_ref(); assert!((*r).to_bits() == inner, "as_ref() exposes the stored value"); }
        { let r: &f32 = &*v; assert!((*r).to_bits() == inner, "deref() exposes the stored value"); }
        { let r: &f32 = ::core::borrow::Borrow::borrow(&v); assert!((*r).to_bits() == inner, "borrow() exposes the stored value"); }
        { let c = v.clone(); assert!(c.into_inner().to_bits() == inner, "clone() is an equal value"); }
        { let r: f32 = v.into(); assert!(r.to_bits() == inner, "into() is the stored value"); }

        kani::cover!(true, "reached");
    }
    #[kani::proof]
    fn k_flt_f32_less_lit_big__comparisons() {
        let ra: f32 = kani::any();
        let rb: f32 = kani::any();
        let a_r = FltF32LessLitBig::try_new(ra);
        kani::assume(a_r.is_ok());
        let a = a_r.unwrap();
        let b_r = FltF32LessLitBig::try_new(rb);
        kani::assume(b_r.is_ok());
        let b = b_r.unwrap();
        let ia = ref_flt_f32_less_lit_big::sanitize(ra); let ib = ref_flt_f32_less_lit_big::sanitize(rb);
        assert!((a == b) == (ia == ib), "== agrees with the inner values");
        assert!((a != b) == (ia != ib), "!= agrees with the inner values");
        assert!(a.partial_cmp(&b) == ia.partial_cmp(&ib), "partial_cmp agrees with the inner values");
        assert!((a < b) == (ia < ib) && (a <= b) == (ia <= ib) && (a > b) == (ia > ib) && (a >= b) == (ia >= ib), "comparison operators agree");

        kani::cover!(true, "reached");
    }
    #[kani::proof]
    fn k_flt_f32_greater_lit_small__views() {
        let raw: f32 = kani::any();
        let v_r = FltF32GreaterLitSmall::try_new(raw);
        kani::assume(v_r.is_ok());
        let v = v_r.unwrap();
        let inner = ref_flt_f32_greater_lit_small::sanitize(raw).to_bits();
        { let r: &f32 = v.as_ref(); assert!((*r).to_bits() == inner, "as_ref() exposes the stored value"); }
        { let r: &f32 = &*v; assert!((*r).to_bits() == inner, "deref() exposes the stored value"); }
        { let r: &f32 = ::core::borrow::Borrow::borrow(&v); assert!((*r).to_bits() == inner, "borrow() exposes the stored value"); }
        { let c = v.clone(); assert!(c.into_inner().to_bits() == inner, "clone() is an equal value"); }
        { let r: f32 = v.into(); assert!(r.to_bits() == inner, "into() is the stored value"); }

        kani::cover!(true, "reached");
    }
    #[kani::proof]
    fn k_flt_f32_greater_lit_small__comparisons() {
        let ra: f32 = kani::any();
        let rb: f32 = kani::any();
        let a_r = FltF32GreaterLitSmall::try_new(ra);
        kani::assume(a_r.is_ok());
        let a = a_r.unwrap();
        let b_r = FltF32GreaterLitSmall::try_new(rb);
        kani::assume(b_r.is_ok());
        let b = b_r.unwrap();
        let ia = ref_flt_f32_greater_lit_small::sanitize(ra); let ib = ref_flt_f32_greater_lit_small::sanitize(rb);
        assert!((a == b) == (ia == ib), "== agrees with the inner values");
        assert!((a != b) == (ia != ib), "!= agrees with the inner values");
        assert!(a.partial_cmp(&b) == ia.partial_cmp(&ib), "partial_cmp agrees with the inner values");
        assert!((a < b) == (ia < ib) && (a <= b) == (ia <= ib) && (a > b) == (ia > ib) && (a >= b) == (ia >= ib), "comparison operators agree");

        kani::cover!(true, "reached");
    }
    #[kani::proof]
    fn k_flt_f32_less_or_equal_lit_neg__views() {
        let raw: f32 = kani::any();
        let v_r = FltF32LessOrEqualLitNeg::try_new(raw);
        kani::assume(v_r.is_ok());
        let v = v_r.unwrap();
        let inner = ref_flt_f32_less_or_equal_lit_neg::sanitize(raw).to_bits();
        { let r: &f32 = v.as_ref(); assert!((*r).to_bits() == inner, "as_ref() exposes the stored value"); }
        { let r: &f32 = &*v; assert!((*r).to_bits() == inner, "deref() exposes the stored value"); }
        { let r: &f32 = ::core::borrow::Borrow::borrow(&v); assert!((*r).to_bits() == inner, "borrow() exposes the stored value"); }
        { let c = v.clone(); assert!(c.into_inner().to_bits() == inner, "clone() is an equal value"); }
        { let r: f32 = v.into(); assert!(r.to_bits() == inner, "into() is the stored value"); }

        kani::cover!(true, "reached");
    }
    #[kani::proof]
    fn k_flt_f32_less_or_equal_lit_neg__comparisons() {
        let ra: f32 = kani::any();
        let rb: f32 = kani::any();
        let a_r = FltF32LessOrEqualLitNeg::try_new(ra);
        kani::assume(a_r.is_ok());
        let a = a_r.unwrap();
        let b_r = FltF32LessOrEqualLitNeg::try_new(rb);
        kani::assume(b_r.is_ok());
        let b = b_r.unwrap();
        let ia = ref_flt_f32_less_or_equal_lit_neg::sanitize(ra); let ib = ref_flt_f32_less_or_equal_lit_neg::sanitize(rb);
        assert!((a == b) == (ia == ib), "== agrees with the inner values");
        assert!((a != b) == (ia != ib), "!= agrees with the inner values");
        assert!(a.partial_cmp(&b) == ia.partial_cmp(&ib), "partial_cmp agrees with the inner values");
        assert!((a < b) == (ia < ib) && (a <= b) == (ia <= ib) && (a > b) == (ia > ib) && (a >= b) == (ia >= ib), "comparison operators agree");

        kani::cover!(true, "reached");
    }
    #[kani::proof]
    fn k_flt_f32_less_or_equal_lit_intlit__views() {
        let raw: f32 = kani::any();
        let v_r = FltF32LessOrEqualLitIntlit::try_new(raw);
        kani::assume(v_r.is_ok());
        let v = v_r.unwrap();
        let inner = ref_flt_f32_less_or_equal_lit_intlit::sanitize(raw).to_bits();
        { let r: &f32 = v.as_ref(); assert!((*r).to_bits() == inner, "as_ref() exposes the stored value"); }
        { let r: &f32 = &*v; assert!((*r).to_bits() == inner, "deref() exposes the stored value"); }
        { let r: &f32 = ::core::borrow::Borrow::borrow(&v); assert!((*r).to_bits() == inner, "borrow() exposes the stored value"); }
        { let c = v.clone(); assert!(c.into_inner().to_bits() == inner, "clone() is an equal value"); }
        { let r: f32 = v.into(); assert!(r.to_bits() == inner, "into() is the stored value"); }

        kani::cover!(true, "reached");
    }
    #[kani::proof]
    fn k_flt_f32_less_or_equal_lit_intlit__comparisons() {
        let ra: f32 = kani::any();
        let rb: f32 = kani::any();
        let a_r = FltF32LessOrEqualLitIntlit::try_new(ra);
        kani::assume(a_r.is_ok());
        let a = a_r.unwrap();
        let b_r = FltF32LessOrEqualLitIntlit::try_new(rb);
        kani::assume(b_r.is_ok());
        let b = b_r.unwrap();
        let ia = ref_flt_f32_less_or_equal_lit_intlit::sanitize(ra); let ib = ref_flt_f32_less_or_equal_lit_intlit::sanitize(rb);
        assert!((a == b) == (ia == ib), "== agrees with the inner values");
        assert!((a != b) == (ia != ib), "!= agrees with the inner values");
        assert!(a.partial_cmp(&b) == ia.partial_cmp(&ib), "partial_cmp agrees with the inner values");
        assert!((a < b) == (ia < ib) && (a <= b) == (ia <= ib) && (a > b) == (ia > ib) && (a >= b) == (ia >= ib), "comparison operators agree");

        kani::cover!(true, "reached");
    }
    #[kani::proof]
    fn k_flt_f32_greater_or_equal_lit_under__views() {
        let raw: f32 = kani::any();
        let v_r = FltF32GreaterOrEqualLitUnder::try_new(raw);
        kani::assume(v_r.is_ok());
        let v = v_r.unwrap();
        let inner = ref_flt_f32_greater_or_equal_lit_under::sanitize(raw).to_bits();
        { let r: &f32 = v.as_ref(); assert!((*r).to_bits() == inner, "as_ref() exposes the stored value"); }
        { let r: &f32 = &*v; assert!((*r).to_bits() == inner, "deref() exposes the stored value"); }
        { let r: &f32 = ::core::borrow::Borrow::borrow(&v); assert!((*r).to_bits() == inner, "borrow() exposes the stored value"); }
        { let c = v.clone(); assert!(c.into_inner().to_bits() == inner, "clone() is an equal value"); }
        { let r: f32 = v.into(); assert!(r.to_bits() == inner, "into() is the stored value"); }

        kani::cover!(true, "reached");
    }
    #[kani::proof]
    fn k_flt_f32_greater_or_equal_lit_under__comparisons() {
        let ra: f32 = kani::any();
        let rb: f32 = kani::any();
        let a_r = FltF32GreaterOrEqualLitUnder::try_new(ra);
        kani::assume(a_r.is_ok());
        let a = a_r.unwrap();
        let b_r = FltF32GreaterOrEqualLitUnder::try_new(rb);
        kani::assume(b_r.is_ok());
        let b = b_r.unwrap();
        let ia = ref_flt_f32_greater_or_equal_lit_under::sanitize(ra); let ib = ref_flt_f32_greater_or_equal_lit_under::sanitize(rb);
        assert!((a == b) == (ia == ib), "== agrees with the inner values");
        assert!((a != b) == (ia != ib), "!= agrees with the inner values");
        assert!(a.partial_cmp(&b) == ia.partial_cmp(&ib), "partial_cmp agrees with the inner values");
        assert!((a < b) == (ia < ib) && (a <= b) == (ia <= ib) && (a > b) == (ia > ib) && (a >= b) == (ia >= ib), "comparison operators agree");

        kani::cover!(true, "reached");
    }
    #[kani::proof]
    fn k_flt_f32_fin_ge_le_lit_const__views() {
        let raw: f32 = kani::any();
        let v_r = FltF32FinGeLeLitConst::try_new(raw);
        kani::assume(v_r.is_ok());
        let v = v_r.unwrap();
        let inner = ref_flt_f32_fin_ge_le_lit_const::sanitize(raw).to_bits();
        { let r: &f32 = v.as_ref(); assert!((*r).to_bits() == inner, "as_ref() exposes the stored value"); }
        { let r: &f32 = &*v; assert!((*r).to_bits() == inner, "deref() exposes the stored value"); }
        { let r: &f32 = ::core::borrow::Borrow::borrow(&v); assert!((*r).to_bits() == inner, "borrow() exposes the stored value"); }
        { let c = v.clone(); assert!(c.into_inner().to_bits() == inner, "clone() is an equal value"); }
        { let r: f32 = v.into(); assert!(r.to_bits() == inner, "into() is the stored value"); }

        kani::cover!(true, "reached");
    }
    #[kani::proof]
    fn k_flt_f32_fin_ge_le_lit_const__comparisons() {
        let ra: f32 = kani::any();
        let rb: f32 = kani::any();
        let a_r = FltF32FinGeLeLitConst::try_new(ra);
        kani::assume(a_r.is_ok());
        let a = a_r.unwrap();
        let b_r = FltF32FinGeLeLitConst::try_new(rb);
        kani::assume(b_r.is_ok());
        let b = b_r.unwrap();
        let ia = ref_flt_f32_fin_ge_le_lit_const::sanitize(ra); let ib = ref_flt_f32_fin_ge_le_lit_const::sanitize(rb);
        assert!((a == b) == (ia == ib), "== agrees with the inner values");
        assert!((a != b) == (ia != ib), "!= agrees with the inner values");
        assert!(a.partial_cmp(&b) == ia.partial_cmp(&ib), "partial_cmp agrees with the inner values");
        assert!((a < b) == (ia < ib) && (a <= b) == (ia <= ib) && (a > b) == (ia > ib) && (a >= b) == (ia >= ib), "comparison operators agree");
        assert!(Some(a.cmp(&b)) == ia.partial_cmp(&ib), "cmp agrees with the comparison of the inner floats (incl. -0.0 vs 0.0)");

        kani::cover!(true, "reached");
    }
    #[kani::proof]
    fn k_flt_f64_greater_sym__views() {
        unsafe { SYM_LO_F64 = kani::any(); }
        let raw: f64 = kani::any();
        let v_r = FltF64GreaterSym::try_new(raw);
        kani::assume(v_r.is_ok());
        let v = v_r.unwrap();
        let inner = ref_flt_f64_greater_sym::sanitize(raw).to_bits();
        { let r: &f64 = v.as_ref(); assert!((*r).to_bits() == inner, "as_ref() exposes the stored value"); }
        { let r: &f64 = &*v; assert!((*r).to_bits() == inner, "deref() exposes the stored value"); }
        { let r: &f64 = ::core::borrow::Borrow::borrow(&v); assert!((*r).to_bits() == inner, "borrow() exposes the stored value"); }
        { let c = v.clone(); assert!(c.into_inner().to_bits() == inner, "clone() is an equal value"); }
        { let r: f64 = v.into(); assert!(r.to_bits() == inner, "into() is the stored value"); }

        kani::cover!(true, "reached");
    }
    #[kani::proof]
    fn k_flt_f64_greater_sym__comparisons() {
        unsafe { SYM_LO_F64 = kani::any(); }
        let ra: f64 = kani::any();
        let rb: f64 = kani::any();
        let a_r = FltF64GreaterSym::try_new(ra);
        kani::assume(a_r.is_ok());
        let a = a_r.unwrap();
        let b_r = FltF64GreaterSym::try_new(rb);
        kani::assume(b_r.is_ok());
        let b = b_r.unwrap();
        let ia = ref_flt_f64_greater_sym::sanitize(ra); let ib = ref_flt_f64_greater_sym::sanitize(rb);
        assert!((a == b) == (ia == ib), "== agrees with the inner values");
        assert!((a != b) == (ia != ib), "!= agrees with the inner values");
        assert!(a.partial_cmp(&b) == ia.partial_cmp(&ib), "partial_cmp agrees with the inner values");
        assert!((a < b) == (ia < ib) && (a <= b) == (ia <= ib) && (a > b) == (ia > ib) && (a >= b) == (ia >= ib), "comparison operators agree");

        kani::cover!(true, "reached");
    }
    #[kani::proof]
    fn k_flt_f64_greater_or_equal_sym__views() {
        unsafe { SYM_LO_F64 = kani::any(); }
        let raw: f64 = kani::any();
        let v_r = FltF64GreaterOrEqualSym::try_new(raw);
        kani::assume(v_r.is_ok());
        let v = v_r.unwrap();
        let inner = ref_flt_f64_greater_or_equal_sym::sanitize(raw).to_bits();
        { let r: &f64 = v.as_ref(); assert!((*r).to_bits() == inner, "as_ref() exposes the stored value"); }
        { let r: &f64 = &*v; assert!((*r).to_bits() == inner, "deref() exposes the stored value"); }
        { let r: &f64 = ::core::borrow::Borrow::borrow(&v); assert!((*r).to_bits() == inner, "borrow() exposes the stored value"); }
        { let c = v.clone(); assert!(c.into_inner().to_bits() == inner, "clone() is an equal value"); }
        { let r: f64 = v.into(); assert!(r.to_bits() == inner, "into() is the stored value"); }

        kani::cover!(true, "reached");
    }
    #[kani::proof]
    fn k_flt_f64_greater_or_equal_sym__comparisons() {
        unsafe { SYM_LO_F64 = kani::any(); }
        let ra: f64 = kani::any();
        let rb: f64 = kani::any();
        let a_r = FltF64GreaterOrEqualSym::try_new(ra);
        kani::assume(a_r.is_ok());
        let a = a_r.unwrap();
        let b_r = FltF64GreaterOrEqualSym::try_new(rb);
        kani::assume(b_r.is_ok());
        let b = b_r.unwrap();
        let ia = ref_flt_f64_greater_or_equal_sym::sanitize(ra); let ib = ref_flt_f64_greater_or_equal_sym::sanitize(rb);
        assert!((a == b) == (ia == ib), "== agrees with the inner values");
        assert!((a != b) == (ia != ib), "!= agrees with the inner values");
        assert!(a.partial_cmp(&b) == ia.partial_cmp(&ib), "partial_cmp agrees with the inner values");
        assert!((a < b) == (ia < ib) && (a <= b) == (ia <= ib) && (a > b) == (ia > ib) && (a >= b) == (ia >= ib), "comparison operators agree");

        kani::cover!(true, "reached");
    }
    #[kani::proof]
    fn k_flt_f64_less_sym__views() {
        unsafe { SYM_HI_F64 = kani::any(); }
        let raw: f64 = kani::any();
        let v_r = FltF64LessSym::try_new(raw);
        kani::assume(v_r.is_ok());
        let v = v_r.unwrap();
        let inner = ref_flt_f64_less_sym::sanitize(raw).to_bits();
        { let r: &f64 = v.as_ref(); assert!((*r).to_bits() == inner, "as_ref() exposes the stored value"); }
        { let r: &f64 = &*v; assert!((*r).to_bits() == inner, "deref() exposes the stored value"); }
        { let r: &f64 = ::core::borrow::Borrow::borrow(&v); assert!((*r).to_bits() == inner, "borrow() exposes the stored value"); }
        { let c = v.clone(); assert!(c.into_inner().to_bits() == inner, "clone() is an equal value"); }
        { let r: f64 = v.into(); assert!(r.to_bits() == inner, "into() is the stored value"); }

        kani::cover!(true, "reached");
    }
    #[kani::proof]
    fn k_flt_f64_less_sym__comparisons() {
        unsafe { SYM_HI_F64 = kani::any(); }
        let ra: f64 = kani::any();
        let rb: f64 = kani::any();
        let a_r = FltF64LessSym::try_new(ra);
        kani::assume(a_r.is_ok());
        let a = a_r.unwrap();
        let b_r = FltF64LessSym::try_new(rb);
        kani::assume(b_r.is_ok());
        let b = b_r.unwrap();
        let ia = ref_flt_f64_less_sym::sanitize(ra); let ib = ref_flt_f64_less_sym::sanitize(rb);
        assert!((a == b) == (ia == ib), "== agrees with the inner values");
        assert!((a != b) == (ia != ib), "!= agrees with the inner values");
        assert!(a.partial_cmp(&b) == ia.partial_cmp(&ib), "partial_cmp agrees with the inner values");
        assert!((a < b) == (ia < ib) && (a <= b) == (ia <= ib) && (a > b) == (ia > ib) && (a >= b) == (ia >= ib), "comparison operators agree");

        kani::cover!(true, "reached");
    }
    #[kani::proof]
    fn k_flt_f64_less_or_equal_sym__views() {
        unsafe { SYM_HI_F64 = kani::any(); }
        let raw: f64 = kani::any();
        let v_r = FltF64LessOrEqualSym::try_new(raw);
        kani::assume(v_r.is_ok());
        let v = v_r.unwrap();
        let inner = ref_flt_f64_less_or_equal_sym::sanitize(raw).to_bits();
        { let r: &f64 = v.as_ref(); assert!((*r).to_bits() == inner, "as_ref() exposes the stored value"); }
        { let r: &f64 = &*v; assert!((*r).to_bits() == inner, "deref() exposes the stored value"); }
        { let r: &f64 = ::core::borrow::Borrow::borrow(&v); assert!((*r).to_bits() == inner, "borrow() exposes the stored value"); }
        { let c = v.clone(); assert!(c.into_inner().to_bits() == inner, "clone() is an equal value"); }
        { let r: f64 = v.into(); assert!(r.to_bits() == inner, "into() is the stored value"); }

        kani::cover!(true, "reached");
    }
    #[kani::proof]
    fn k_flt_f64_less_or_equal_sym__comparisons() {
        unsafe { SYM_HI_F64 = kani::any(); }
        let ra: f64 = kani::any();
        let rb: f64 = kani::any();
        let a_r = FltF64LessOrEqualSym::try_new(ra);
        kani::assume(a_r.is_ok());
        let a = a_r.unwrap();
        let b_r = FltF64LessOrEqualSym::try_new(rb);
        kani::assume(b_r.is_ok());
        let b = b_r.unwrap();
        let ia = ref_flt_f64_less_or_equal_sym::sanitize(ra); let ib = ref_flt_f64_less_or_equal_sym::sanitize(rb);
        assert!((a == b) == (ia == ib), "== agrees with the inner values");
        assert!((a != b) == (ia != ib), "!= agrees with the inner values");
        assert!(a.partial_cmp(&b) == ia.partial_cmp(&ib), "partial_cmp agrees with the inner values");
        assert!((a < b) == (ia < ib) && (a <= b) == (ia <= ib) && (a > b) == (ia > ib) && (a >= b) == (ia >= ib), "comparison operators agree");

        kani::cover!(true, "reached");
    }
    #[kani::proof]
    fn k_flt_f64_finite__views() {
        let raw: f64 = kani::any();
        let v_r = FltF64Finite::try_new(raw);
        kani::assume(v_r.is_ok());
        let v = v_r.unwrap();
        let inner = ref_flt_f64_finite::sanitize(raw).to_bits();
        { let r: &f64 = v.as_ref(); assert!((*r).to_bits() == inner, "as_ref() exposes the stored value"); }
        { let r: &f64 = &*v; assert!((*r).to_bits() == inner, "deref() exposes the stored value"); }
        { let r: &f64 = ::core::borrow::Borrow::borrow(&v); assert!((*r).to_bits() == inner, "borrow() exposes the stored value"); }
        { let c = v.clone(); assert!(c.into_inner().to_bits() == inner, "clone() is an equal value"); }
        { let r: f64 = v.into(); assert!(r.to_bits() == inner, "into() is the stored value"); }

        kani::cover!(true, "reached");
    }
    #[kani::proof]
    fn k_flt_f64_finite__comparisons() {
        let ra: f64 = kani::any();
        let rb: f64 = kani::any();
        let a_r = FltF64Finite::try_new(ra);
        kani::assume(a_r.is_ok());
        let a = a_r.unwrap();
        let b_r = FltF64Finite::try_new(rb);
        kani::assume(b_r.is_ok());
        let b = b_r.unwrap();
        let ia = ref_flt_f64_finite::sanitize(ra); let ib = ref_flt_f64_finite::sanitize(rb);
        assert!((a == b) == (ia == ib), "== agrees with the inner values");
        assert!((a != b) == (ia != ib), "!= agrees with the inner values");
        assert!(a.partial_cmp(&b) == ia.partial_cmp(&ib), "partial_cmp agrees with the inner values");
        assert!((a < b) == (ia < ib) && (a <= b) == (ia <= ib) && (a > b) == (ia > ib) && (a >= b) == (ia >= ib), "comparison operators agree");
        assert!(Some(a.cmp(&b)) == ia.partial_cmp(&ib), "cmp agrees with the comparison of the inner floats (incl. -0.0 vs 0.0)");

        kani::cover!(true, "reached");
    }
    #[kani::proof]
    fn k_flt_f64_greater_less_sym__views() {
        unsafe { SYM_LO_F64 = kani::any(); }
        unsafe { SYM_HI_F64 = kani::any(); }
        let raw: f64 = kani::any();
        let v_r = FltF64GreaterLessSym::try_new(raw);
        kani::assume(v_r.is_ok());
        let v = v_r.unwrap();
        let inner = ref_flt_f64_greater_less_sym::sanitize(raw).to_bits();
        { let r: &f64 = v.as_ref(); assert!((*r).to_bits() == inner, "as_ref() exposes the stored value"); }
        { let r: &f64 = &*v; assert!((*r).to_bits() == inner, "deref() exposes the stored value"); }
        { let r: &f64 = ::core::borrow::Borrow::borrow(&v); assert!((*r).to_bits() == inner, "borrow() exposes the stored value"); }
        { let c = v.clone(); assert!(c.into_inner().to_bits() == inner, "clone() is an equal value"); }
        { let r: f64 = v.into(); assert!(r.to_bits() == inner, "into() is the stored value"); }

        kani::cover!(true, "reached");
    }
    #[kani::proof]
    fn k_flt_f64_greater_less_sym__comparisons() {
        unsafe { SYM_LO_F64 = kani::any(); }
        unsafe { SYM_HI_F64 = kani::any(); }
        let ra: f64 = kani::any();
        let rb: f64 = kani::any();
        let a_r = FltF64GreaterLessSym::try_new(ra);
        kani::assume(a_r.is_ok());
        let a = a_r.unwrap();
        let b_r = FltF64GreaterLessSym::try_new(rb);
        kani::assume(b_r.is_ok());
        let b = b_r.unwrap();
        let ia = ref_flt_f64_greater_less_sym::sanitize(ra); let ib = ref_flt_f64_greater_less_sym::sanitize(rb);
        assert!((a == b) == (ia == ib), "== agrees with the inner values");
        assert!((a != b) == (ia != ib), "!= agrees with the inner values");
        assert!(a.partial_cmp(&b) == ia.partial_cmp(&ib), "partial_cmp agrees with the inner values");
        assert!((a < b) == (ia < ib) && (a <= b) == (ia <= ib) && (a > b) == (ia > ib) && (a >= b) == (ia >= ib), "comparison operators agree");

        kani::cover!(true, "reached");
    }
    #[kani::proof]
    fn k_flt_f64_fin_greater_less_sym__views() {
        unsafe { SYM_LO_F64 = kani::any(); }
        unsafe { SYM_HI_F64 = kani::any(); }
        let raw: f64 = kani::any();
        let v_r = FltF64FinGreaterLessSym::try_new(raw);
        kani::assume(v_r.is_ok());
        let v = v_r.unwrap();
        let inner = ref_flt_f64_fin_greater_less_sym::sanitize(raw).to_bits();
        { let r: &f64 = v.as_ref(); assert!((*r).to_bits() == inner, "as_ref() exposes the stored value"); }
        { let r: &f64 = &*v; assert!((*r).to_bits() == inner, "deref() exposes the stored value"); }
        { let r: &f64 = ::core::borrow::Borrow::borrow(&v); assert!((*r).to_bits() == inner, "borrow() exposes the stored value"); }
        { let c = v.clone(); assert!(c.into_inner().to_bits() == inner, "clone() is an equal value"); }
        { let r: f64 = v.into(); assert!(r.to_bits() == inner, "into() is the stored value"); }

        kani::cover!(true, "reached");
    }
    #[kani::proof]
    fn k_flt_f64_fin_greater_less_sym__comparisons() {
        unsafe { SYM_LO_F64 = kani::any(); }
        unsafe { SYM_HI_F64 = kani::any(); }
        let ra: f64 = kani::any();
        let rb: f64 = kani::any();
        let a_r = FltF64FinGreaterLessSym::try_new(ra);
        kani::assume(a_r.is_ok());
        let a = a_r.unwrap();
        let b_r = FltF64FinGreaterLessSym::try_new(rb);
        kani::assume(b_r.is_ok());
        let b = b_r.unwrap();
        let ia = ref_flt_f64_fin_greater_less_sym::sanitize(ra); let ib = ref_flt_f64_fin_greater_less_sym::sanitize(rb);
        assert!((a == b) == (ia == ib), "== agrees with the inner values");
        assert!((a != b) == (ia != ib), "!= agrees with the inner values");
        assert!(a.partial_cmp(&b) == ia.partial_cmp(&ib), "partial_cmp agrees with the inner values");
        assert!((a < b) == (ia < ib) && (a <= b) == (ia <= ib) && (a > b) == (ia > ib) && (a >= b) == (ia >= ib), "comparison operators agree");
        assert!(Some(a.cmp(&b)) == ia.partial_cmp(&ib), "cmp agrees with the comparison of the inner floats (incl. -0.0 vs 0.0)");

        kani::cover!(true, "reached");
    }
    #[kani::proof]
    fn k_flt_f64_greater_less_or_equal_sym__views() {
        unsafe { SYM_LO_F64 = kani::any(); }
        unsafe { SYM_HI_F64 = kani::any(); }
        let raw: f64 = kani::any();
        let v_r = FltF64GreaterLessOrEqualSym::try_new(raw);
        kani::assume(v_r.is_ok());
        let v = v_r.unwrap();
        let inner = ref_flt_f64_greater_less_or_equal_sym::sanitize(raw).to_bits();
        { let r: &f64 = v.as_ref(); assert!((*r).to_bits() == inner, "as_ref() exposes the stored value"); }
        { let r: &f64 = &*v; assert!((*r).to_bits() == inner, "deref() exposes the stored value"); }
        { let r: &f64 = ::core::borrow::Borrow::borrow(&v); assert!((*r).to_bits() == inner, "borrow() exposes the stored value"); }
        { let c = v.clone(); assert!(c.into_inner().to_bits() == inner, "clone() is an equal value"); }
        { let r: f64 = v.into(); assert!(r.to_bits() == inner, "into() is the stored value"); }

        kani::cover!(true, "reached");
    }
    #[kani::proof]
    fn k_flt_f64_greater_less_or_equal_sym__comparisons() {
        unsafe { SYM_LO_F64 = kani::any(); }
        unsafe { SYM_HI_F64 = kani::any(); }
        let ra: f64 = kani::any();
        let rb: f64 = kani::any();
        let a_r = FltF64GreaterLessOrEqualSym::try_new(ra);
        kani::assume(a_r.is_ok());
        let a = a_r.unwrap();
        let b_r = FltF64GreaterLessOrEqualSym::try_new(rb);
        kani::assume(b_r.is_ok());
        let b = b_r.unwrap();
        let ia = ref_flt_f64_greater_less_or_equal_sym::sanitize(ra); let ib = ref_flt_f64_greater_less_or_equal_sym::sanitize(rb);
        assert!((a == b) == (ia == ib), "== agrees with the inner values");
        assert!((a != b) == (ia != ib), "!= agrees with the inner values");
        assert!(a.partial_cmp(&b) == ia.partial_cmp(&ib), "partial_cmp agrees with the inner values");
        assert!((a < b) == (ia < ib) && (a <= b) == (ia <= ib) && (a > b) == (ia > ib) && (a >= b) == (ia >= ib), "comparison operators agree");

        kani::cover!(true, "reached");
    }
    #[kani::proof]
    fn k_flt_f64_fin_greater_less_or_equal_sym__views() {
        unsafe { SYM_LO_F64 = kani::any(); }
        unsafe { SYM_HI_F64 = kani::any(); }
        let raw: f64 = kani::any();
        let v_r = FltF64FinGreaterLessOrEqualSym::try_new(raw);
        kani::assume(v_r.is_ok());
        let v = v_r.unwrap();
        let inner = ref_flt_f64_fin_greater_less_or_equal_sym::sanitize(raw).to_bits();
        { let r: &f64 = v.as_ref(); assert!((*r).to_bits() == inner, "as_ref() exposes the stored value"); }
        { let r: &f64 = &*v; assert!((*r).to_bits() == inner, "deref() exposes the stored value"); }
        { let r: &f64 = ::core::borrow::Borrow::borrow(&v); assert!((*r).to_bits() == inner, "borrow() exposes the stored value"); }
        { let c = v.clone(); assert!(c.into_inner().to_bits() == inner, "clone() is an equal value"); }
        { let r: f64 = v.into(); assert!(r.to_bits() == inner, "into() is the stored value"); }

        kani::cover!(true, "reached");
    }
    #[kani::proof]
    fn k_flt_f64_fin_greater_less_or_equal_sym__comparisons() {
        unsafe { SYM_LO_F64 = kani::any(); }
        unsafe { SYM_HI_F64 = kani::any(); }
        let ra: f64 = kani::any();
        let rb: f64 = kani::any();
        let a_r = FltF64FinGreaterLessOrEqualSym::try_new(ra);
        kani::assume(a_r.is_ok());
        let a = a_r.unwrap();
        let b_r = FltF64FinGreaterLessOrEqualSym::try_new(rb);
        kani::assume(b_r.is_ok());
        let b = b_r.unwrap();
        let ia = ref_flt_f64_fin_greater_less_or_equal_sym::sanitize(ra); let ib = ref_flt_f64_fin_greater_less_or_equal_sym::sanitize(rb);
        assert!((a == b) == (ia == ib), "== agrees with the inner values");
        assert!((a != b) == (ia != ib), "!= agrees with the inner values");
        assert!(a.partial_cmp(&b) == ia.partial_cmp(&ib), "partial_cmp agrees with the inner values");
        assert!((a < b) == (ia < ib) && (a <= b) == (ia <= ib) && (a > b) == (ia > ib) && (a >= b) == (ia >= ib), "comparison operators agree");
        assert!(Some(a.cmp(&b)) == ia.partial_cmp(&ib), "cmp agrees with the comparison of the inner floats (incl. -0.0 vs 0.0)");

        kani::cover!(true, "reached");
    }
    #[kani::proof]
    fn k_flt_f64_greater_or_equal_less_sym__views() {
        unsafe { SYM_LO_F64 = kani::any(); }
        unsafe { SYM_HI_F64 = kani::any(); }
        let raw: f64 = kani::any();
        let v_r = FltF64GreaterOrEqualLessSym::try_new(raw);
        kani::assume(v_r.is_ok());
        let v = v_r.unwrap();
        let inner = ref_flt_f64_greater_or_equal_less_sym::sanitize(raw).to_bits();
        { let r: &f64 = v.as_ref(); assert!((*r).to_bits() == inner, "as_ref() exposes the stored value"); }
        { let r: &f64 = &*v; assert!((*r).to_bits() == inner, "deref() exposes the stored value"); }
        { let r: &f64 = ::core::borrow::Borrow::borrow(&v); assert!((*r).to_bits() == inner, "borrow() exposes the stored value"); }
        { let c = v.clone(); assert!(c.into_inner().to_bits() == inner, "clone() is an equal value"); }
        { let r: f64 = v.into(); assert!(r.to_bits() == inner, "into() is the stored value"); }

        kani::cover!(true, "reached");
    }
    #[kani::proof]
    fn k_flt_f64_greater_or_equal_less_sym__comparisons() {
        unsafe { SYM_LO_F64 = kani::any(); }
        unsafe { SYM_HI_F64 = kani::any(); }
        let ra: f64 = kani::any();
        let rb: f64 = kani::any();
        let a_r = FltF64GreaterOrEqualLessSym::try_new(ra);
        kani::assume(a_r.is_ok());
        let a = a_r.unwrap();
        let b_r = FltF64GreaterOrEqualLessSym::try_new(rb);
        kani::assume(b_r.is_ok());
        let b = b_r.unwrap();
        let ia = ref_flt_f64_greater_or_equal_less_sym::sanitize(ra); let ib = ref_flt_f64_greater_or_equal_less_sym::sanitize(rb);
        assert!((a == b) == (ia == ib), "== agrees with the inner values");
        assert!((a != b) == (ia != ib), "!= agrees with the inner values");
        assert!(a.partial_cmp(&b) == ia.partial_cmp(&ib), "partial_cmp agrees with the inner values");
        assert!((a < b) == (ia < ib) && (a <= b) == (ia <= ib) && (a > b) == (ia > ib) && (a >= b) == (ia >= ib), "comparison operators agree");

        kani::cover!(true, "reached");
    }
    #[kani::proof]
    fn k_flt_f64_fin_greater_or_equal_less_sym__views() {
        unsafe { SYM_LO_F64 = kani::any(); }
        unsafe { SYM_HI_F64 = kani::any(); }
        let raw: f64 = kani::any();
        let v_r = FltF64FinGreaterOrEqualLessSym::try_new(raw);
        kani::assume(v_r.is_ok());
        let v = v_r.unwrap();
        let inner = ref_flt_f64_fin_greater_or_equal_less_sym::sanitize(raw).to_bits();
        { let r: &f64 = v.as_ref(); assert!((*r).to_bits() == inner, "as_ref() exposes the stored value"); }
        { let r: &f64 = &*v; assert!((*r).to_bits() == inner, "deref() exposes the stored value"); }
        { let r: &f64 = ::core::borrow::Borrow::borrow(&v); assert!((*r).to_bits() == inner, "borrow() exposes the stored value"); }
        { let c = v.clone(); assert!(c.into_inner().to_bits() == inner, "clone() is an equal value"); }
        { let r: f64 = v.into(); assert!(r.to_bits() == inner, "into() is the stored value"); }

        kani::cover!(true, "reached");
    }
    #[kani::proof]
    fn k_flt_f64_fin_greater_or_equal_less_sym__comparisons() {
        unsafe { SYM_LO_F64 = kani::any(); }
        unsafe { SYM_HI_F64 = kani::any(); }
        let ra: f64 = kani::any();
        let rb: f64 = kani::any();
        let a_r = FltF64FinGreaterOrEqualLessSym::try_new(ra);
        kani::assume(a_r.is_ok());
        let a = a_r.unwrap();
        let b_r = FltF64FinGreaterOrEqualLessSym::try_new(rb);
        kani::assume(b_r.is_ok());
        let b = b_r.unwrap();
        let ia = ref_flt_f64_fin_greater_or_equal_less_sym::sanitize(ra); let ib = ref_flt_f64_fin_greater_or_equal_less_sym::sanitize(rb);
        assert!((a == b) == (ia == ib), "== agrees with the inner values");
        assert!((a != b) == (ia != ib), "!= agrees with the inner values");
        assert!(a.partial_cmp(&b) == ia.partial_cmp(&ib), "partial_cmp agrees with the inner values");
        assert!((a < b) == (ia < ib) && (a <= b) == (ia <= ib) && (a > b) == (ia > ib) && (a >= b) == (ia >= ib), "comparison operators agree");
        assert!(Some(a.cmp(&b)) == ia.partial_cmp(&ib), "cmp agrees with the comparison of the inner floats (incl. -0.0 vs 0.0)");

        kani::cover!(true, "reached");
    }
    #[kani::proof]
    fn k_flt_f64_greater_or_equal_less_or_equal_sym__views() {
        unsafe { SYM_LO_F64 = kani::any(); }
        unsafe { SYM_HI_F64 = kani::any(); }
        let raw: f64 = kani::any();
        let v_r = FltF64GreaterOrEqualLessOrEqualSym::try_new(raw);
        kani::assume(v_r.is_ok());
        let v = v_r.unwrap();
        let inner = ref_flt_f64_greater_or_equal_less_or_equal_sym::sanitize(raw).to_bits();
        { let r: &f64 = v.as_ref(); assert!((*r).to_bits() == inner, "as_ref() exposes the stored value"); }
        { let r: &f64 = &*v; assert!((*r).to_bits() == inner, "deref() exposes the stored value"); }
        { let r: &f64 = ::core::borrow::Borrow::borrow(&v); assert!((*r).to_bits() == inner, "borrow() exposes the stored value"); }
        { let c = v.clone(); assert!(c.into_inner().to_bits() == inner, "clone() is an equal value"); }
        { let r: f64 = v.into(); assert!(r.to_bits() == inner, "into() is the stored value"); }

        kani::cover!(true, "reached");
    }
    #[kani::proof]
    fn k_flt_f64_greater_or_equal_less_or_equal_sym__comparisons() {
        unsafe { SYM_LO_F64 = kani::any(); }
        unsafe { SYM_HI_F64 = kani::any(); }
        let ra: f64 = kani::any();
        let rb: f64 = kani::any();
        let a_r = FltF64GreaterOrEqualLessOrEqualSym::try_new(ra);
        kani::assume(a_r.is_ok());
        let a = a_r.unwrap();
        let b_r = FltF64GreaterOrEqualLessOrEqualSym::try_new(rb);
        kani::assume(b_r.is_ok());
        let b = b_r.unwrap();
        let ia = ref_flt_f64_greater_or_equal_less_or_equal_sym::sanitize(ra); let ib = ref_flt_f64_greater_or_equal_less_or_equal_sym::sanitize(rb);
        assert!((a == b) == (ia == ib), "== agrees with the inner values");
        assert!((a != b) == (ia != ib), "!= agrees with the inner values");
        assert!(a.partial_cmp(&b) == ia.partial_cmp(&ib), "partial_cmp agrees with the inner values");
        assert!((a < b) == (ia < ib) && (a <= b) == (ia <= ib) && (a > b) == (ia > ib) && (a >= b) == (ia >= ib), "comparison operators agree");

        kani::cover!(true, "reached");
    }
    #[kani::proof]
    fn k_flt_f64_fin_greater_or_equal_less_or_equal_sym__views() {
        unsafe { SYM_LO_F64 = kani::any(); }
        unsafe { SYM_HI_F64 = kani::any(); }
        let raw: f64 = kani::any();
        let v_r = FltF64FinGreaterOrEqualLessOrEqualSym::try_new(raw);
        kani::assume(v_r.is_ok());
        let v = v_r.unwrap();
        let inner = ref_flt_f64_fin_greater_or_equal_less_or_equal_sym::sanitize(raw).to_bits();
        { let r: &f64 = v.as_ref(); assert!((*r).to_bits() == inner, "as_ref() exposes the stored value"); }
        { let r: &f64 = &*v; assert!((*r).to_bits() == inner, "deref() exposes the stored value"); }
        { let r: &f64 = ::core::borrow::Borrow::borrow(&v); assert!((*r).to_bits() == inner, "borrow() exposes the stored value"); }
        { let c = v.clone(); assert!(c.into_inner().to_bits() == inner, "clone() is an equal value"); }
        { let r: f64 = v.into(); assert!(r.to_bits() == inner, "into() is the stored value"); }

        kani::cover!(true, "reached");
    }
    #[kani::proof]
    fn k_flt_f64_fin_greater_or_equal_less_or_equal_sym__comparisons() {
        unsafe { SYM_LO_F64 = kani::any(); }
        unsafe { SYM_HI_F64 = kani::any(); }
        let ra: f64 = kani::any();
        let rb: f64 = kani::any();
        let a_r = FltF64FinGreaterOrEqualLessOrEqualSym::try_new(ra);
        kani::assume(a_r.is_ok());
        let a = a_r.unwrap();
        let b_r = FltF64FinGreaterOrEqualLessOrEqualSym::try_new(rb);
        kani::assume(b_r.is_ok());
        let b = b_r.unwrap();
        let ia = ref_flt_f64_fin_greater_or_equal_less_or_equal_sym::sanitize(ra); let ib = ref_flt_f64_fin_greater_or_equal_less_or_equal_sym::sanitize(rb);
        assert!((a == b) == (ia == ib), "== agrees with the inner values");
        assert!((a != b) == (ia != ib), "!= agrees with the inner values");
        assert!(a.partial_cmp(&b) == ia.partial_cmp(&ib), "partial_cmp agrees with the inner values");
        assert!((a < b) == (ia < ib) && (a <= b) == (ia <= ib) && (a > b) == (ia > ib) && (a >= b) == (ia >= ib), "comparison operators agree");
        assert!(Some(a.cmp(&b)) == ia.partial_cmp(&ib), "cmp agrees with the comparison of the inner floats (incl. -0.0 vs 0.0)");

        kani::cover!(true, "reached");
    }
    #[kani::proof]
    fn k_flt_f64_le_ge_fin_sym__views() {
        unsafe { SYM_LO_F64 = kani::any(); }
        unsafe { SYM_HI_F64 = kani::any(); }
        let raw: f64 = kani::any();
        let v_r = FltF64LeGeFinSym::try_new(raw);
        kani::assume(v_r.is_ok());
        let v = v_r.unwrap();
        let inner = ref_flt_f64_le_ge_fin_sym::sanitize(raw).to_bits();
        { let r: &f64 = v.as_ref(); assert!((*r).to_bits() == inner, "as_ref() exposes the stored value"); }
        { let r: &f64 = &*v; assert!((*r).to_bits() == inner, "deref() exposes the stored value"); }
        { let r: &f64 = ::core::borrow::Borrow::borrow(&v); assert!((*r).to_bits() == inner, "borrow() exposes the stored value"); }
        { let c = v.clone(); assert!(c.into_inner().to_bits() == inner, "clone() is an equal value"); }
        { let r: f64 = v.into(); assert!(r.to_bits() == inner, "into() is the stored value"); }

        kani::cover!(true, "reached");
    }
    #[kani::proof]
    fn k_flt_f64_le_ge_fin_sym__comparisons() {
        unsafe { SYM_LO_F64 = kani::any(); }
        unsafe { SYM_HI_F64 = kani::any(); }
        let ra: f64 = kani::any();
        let rb: f64 = kani::any();
        let a_r = FltF64LeGeFinSym::try_new(ra);
        kani::assume(a_r.is_ok());
        let a = a_r.unwrap();
        let b_r = FltF64LeGeFinSym::try_new(rb);
        kani::assume(b_r.is_ok());
        let b = b_r.unwrap();
        let ia = ref_flt_f64_le_ge_fin_sym::sanitize(ra); let ib = ref_flt_f64_le_ge_fin_sym::sanitize(rb);
        assert!((a == b) == (ia == ib), "== agrees with the inner values");
        assert!((a != b) == (ia != ib), "!= agrees with the inner values");
        assert!(a.partial_cmp(&b) == ia.partial_cmp(&ib), "partial_cmp agrees with the inner values");
        assert!((a < b) == (ia < ib) && (a <= b) == (ia <= ib) && (a > b) == (ia > ib) && (a >= b) == (ia >= ib), "comparison operators agree");
        assert!(Some(a.cmp(&b)) == ia.partial_cmp(&ib), "cmp agrees with the comparison of the inner floats (incl. -0.0 vs 0.0)");

        kani::cover!(true, "reached");
    }
    #[kani::proof]
    fn k_flt_f64_pred_lt_fin__views() {
        unsafe { SYM_HI_F64 = kani::any(); }
        let raw: f64 = kani::any();
        let v_r = FltF64PredLtFin::try_new(raw);
        kani::assume(v_r.is_ok());
        let v = v_r.unwrap();
        let inner = ref_flt_f64_pred_lt_fin::sanitize(raw).to_bits();
        { let r: &f64 = v.as_ref(); assert!((*r).to_bits() == inner, "as_ref() exposes the stored value"); }
        { let r: &f64 = &*v; assert!((*r).to_bits() == inner, "deref() exposes the stored value"); }
        { let r: &f64 = ::core::borrow::Borrow::borrow(&v); assert!((*r).to_bits() == inner, "borrow() exposes the stored value"); }
        { let c = v.clone(); assert!(c.into_inner().to_bits() == inner, "clone() is an equal value"); }
        { let r: f64 = v.into(); assert!(r.to_bits() == inner, "into() is the stored value"); }

        kani::cover!(true, "reached");
    }
    #[kani::proof]
    fn k_flt_f64_pred_lt_fin__comparisons() {
        unsafe { SYM_HI_F64 = kani::any(); }
        let ra: f64 = kani::any();
        let rb: f64 = kani::any();
        let a_r = FltF64PredLtFin::try_new(ra);
        kani::assume(a_r.is_ok());
        let a = a_r.unwrap();
        let b_r = FltF64PredLtFin::try_new(rb);
        kani::assume(b_r.is_ok());
        let b = b_r.unwrap();
        let ia = ref_flt_f64_pred_lt_fin::sanitize(ra); let ib = ref_flt_f64_pred_lt_fin::sanitize(rb);
        assert!((a == b) == (ia == ib), "== agrees with the inner values");
        assert!((a != b) == (ia != ib), "!= agrees with the inner values");
        assert!(a.partial_cmp(&b) == ia.partial_cmp(&ib), "partial_cmp agrees with the inner values");
        assert!((a < b) == (ia < ib) && (a <= b) == (ia <= ib) && (a > b) == (ia > ib) && (a >= b) == (ia >= ib), "comparison operators agree");
        assert!(Some(a.cmp(&b)) == ia.partial_cmp(&ib), "cmp agrees with the comparison of the inner floats (incl. -0.0 vs 0.0)");

        kani::cover!(true, "reached");
    }
    #[kani::proof]
    fn k_flt_f64_custom__views() {
        let raw: f64 = kani::any();
        let v_r = FltF64Custom::try_new(raw);
        kani::assume(v_r.is_ok());
        let v = v_r.unwrap();
        let inner = ref_flt_f64_custom::sanitize(raw).to_bits();
        { let r: &f64 = v.as_ref(); assert!((*r).to_bits() == inner, "as_ref() exposes the stored value"); }
        { let r: &f64 = &*v; assert!((*r).to_bits() == inner, "deref() exposes the stored value"); }
        { let r: &f64 = ::core::borrow::Borrow::borrow(&v); assert!((*r).to_bits() == inner, "borrow() exposes the stored value"); }
        { let c = v.clone(); assert!(c.into_inner().to_bits() == inner, "clone() is an equal value"); }
        { let r: f64 = v.into(); assert!(r.to_bits() == inner, "into() is the stored value"); }

        kani::cover!(true, "reached");
    }
    #[kani::proof]
    fn k_flt_f64_custom__comparisons() {
        let ra: f64 = kani::any();
        let rb: f64 = kani::any();
        let a_r = FltF64Custom::try_new(ra);
        kani::assume(a_r.is_ok());
        let a = a_r.unwrap();
        let b_r = FltF64Custom::try_new(rb);
        kani::assume(b_r.is_ok());
        let b = b_r.unwrap();
        let ia = ref_flt_f64_custom::sanitize(ra); let ib = ref_flt_f64_custom::sanitize(rb);
        assert!((a == b) == (ia == ib), "== agrees with the inner values");
        assert!((a != b) == (ia != ib), "!= agrees with the inner values");
        assert!(a.partial_cmp(&b) == ia.partial_cmp(&ib), "partial_cmp agrees with the inner values");
        assert!((a < b) == (ia < ib) && (a <= b) == (ia <= ib) && (a > b) == (ia > ib) && (a >= b) == (ia >= ib), "comparison operators agree");

        kani::cover!(true, "reached");
    }
    #[kani::proof]
    fn k_flt_f64_san_fin_le__views() {
        unsafe { SYM_HI_F64 = kani::any(); }
        let raw: f64 = kani::any();
        let v_r = FltF64SanFinLe::try_new(raw);
        kani::assume(v_r.is_ok());
        let v = v_r.unwrap();
        let inner = ref_flt_f64_san_fin_le::sanitize(raw).to_bits();
        { let r: &f64 = v.as_ref(); assert!((*r).to_bits() == inner, "as_ref() exposes the stored value"); }
        { let r: &f64 = &*v; assert!((*r).to_bits() == inner, "deref() exposes the stored value"); }
        { let r: &f64 = ::core::borrow::Borrow::borrow(&v); assert!((*r).to_bits() == inner, "borrow() exposes the stored value"); }
        { let c = v.clone(); assert!(c.into_inner().to_bits() == inner, "clone() is an equal value"); }
        { let r: f64 = v.into(); assert!(r.to_bits() == inner, "into() is the stored value"); }

        kani::cover!(true, "reached");
    }
    #[kani::proof]
    fn k_flt_f64_san_fin_le__comparisons() {
        unsafe { SYM_HI_F64 = kani::any(); }
        let ra: f64 = kani::any();
        let rb: f64 = kani::any();
        let a_r = FltF64SanFinLe::try_new(ra);
        kani::assume(a_r.is_ok());
        let a = a_r.unwrap();
        let b_r = FltF64SanFinLe::try_new(rb);
        kani::assume(b_r.is_ok());
        let b = b_r.unwrap();
        let ia = ref_flt_f64_san_fin_le::sanitize(ra); let ib = ref_flt_f64_san_fin_le::sanitize(rb);
        assert!((a == b) == (ia == ib), "== agrees with the inner values");
        assert!((a != b) == (ia != ib), "!= agrees with the inner values");
        assert!(a.partial_cmp(&b) == ia.partial_cmp(&ib), "partial_cmp agrees with the inner values");
        assert!((a < b) == (ia < ib) && (a <= b) == (ia <= ib) && (a > b) == (ia > ib) && (a >= b) == (ia >= ib), "comparison operators agree");
        assert!(Some(a.cmp(&b)) == ia.partial_cmp(&ib), "cmp agrees with the comparison of the inner floats (incl. -0.0 vs 0.0)");

        kani::cover!(true, "reached");
    }
    #[kani::proof]
    fn k_flt_f64_san_nov__views() {
        let raw: f64 = kani::any();
        let v = FltF64SanNov::new(raw);
        let inner = ref_flt_f64_san_nov::sanitize(raw).to_bits();
        { let r: &f64 = v.as_ref(); assert!((*r).to_bits() == inner, "as_ref() exposes the stored value"); }
        { let r: &f64 = &*v; assert!((*r).to_bits() == inner, "deref() exposes the stored value"); }
        { let r: &f64 = ::core::borrow::Borrow::borrow(&v); assert!((*r).to_bits() == inner, "borrow() exposes the stored value"); }
        { let c = v.clone(); assert!(c.into_inner().to_bits() == inner, "clone() is an equal value"); }
        { let r: f64 = v.into(); assert!(r.to_bits() == inner, "into() is the stored value"); }

        kani::cover!(true, "reached");
    }
    #[kani::proof]
    fn k_flt_f64_san_nov__comparisons() {
        let ra: f64 = kani::any();
        let rb: f64 = kani::any();
        let a = FltF64SanNov::new(ra);
        let b = FltF64SanNov::new(rb);
        let ia = ref_flt_f64_san_nov::sanitize(ra); let ib = ref_flt_f64_san_nov::sanitize(rb);
        assert!((a == b) == (ia == ib), "== agrees with the inner values");
        assert!((a != b) == (ia != ib), "!= agrees with the inner values");
        assert!(a.partial_cmp(&b) == ia.partial_cmp(&ib), "partial_cmp agrees with the inner values");
        assert!((a < b) == (ia < ib) && (a <= b) == (ia <= ib) && (a > b) == (ia > ib) && (a >= b) == (ia >= ib), "comparison operators agree");

        kani::cover!(true, "reached");
    }
    #[kani::proof]
    fn k_flt_f64_san3_fin_le__views() {
        unsafe { SYM_HI_F64 = kani::any(); }
        let raw: f64 = kani::any();
        let v_r = FltF64San3FinLe::try_new(raw);
        kani::assume(v_r.is_ok());
        let v = v_r.unwrap();
        let inner = ref_flt_f64_san3_fin_le::sanitize(raw).to_bits();
        { let r: &f64 = v.as_ref(); assert!((*r).to_bits() == inner, "as_ref() exposes the stored value"); }
        { let r: &f64 = &*v; assert!((*r).to_bits() == inner, "deref() exposes the stored value"); }
        { let r: &f64 = ::core::borrow::Borrow::borrow(&v); assert!((*r).to_bits() == inner, "borrow() exposes the stored value"); }
        { let c = v.clone(); assert!(c.into_inner().to_bits() == inner, "clone() is an equal value"); }
        { let r: f64 = v.into(); assert!(r.to_bits() == inner, "into() is the stored value"); }

        kani::cover!(true, "reached");
    }
    #[kani::proof]
    fn k_flt_f64_san3_fin_le__comparisons() {
        unsafe { SYM_HI_F64 = kani::any(); }
        let ra: f64 = kani::any();
        let rb: f64 = kani::any();
        let a_r = FltF64San3FinLe::try_new(ra);
        kani::assume(a_r.is_ok());
        let a = a_r.unwrap();
        let b_r = FltF64San3FinLe::try_new(rb);
        kani::assume(b_r.is_ok());
        let b = b_r.unwrap();
        let ia = ref_flt_f64_san3_fin_le::sanitize(ra); let ib = ref_flt_f64_san3_fin_le::sanitize(rb);
        assert!((a == b) == (ia == ib), "== agrees with the inner values");
        assert!((a != b) == (ia != ib), "!= agrees with the inner values");
        assert!(a.partial_cmp(&b) == ia.partial_cmp(&ib), "partial_cmp agrees with the inner values");
        assert!((a < b) == (ia < ib) && (a <= b) == (ia <= ib) && (a > b) == (ia > ib) && (a >= b) == (ia >= ib), "comparison operators agree");
        assert!(Some(a.cmp(&b)) == ia.partial_cmp(&ib), "cmp agrees with the comparison of the inner floats (incl. -0.0 vs 0.0)");

        kani::cover!(true, "reached");
    }
    #[kani::proof]
    fn k_flt_f64_san_nov_tf__views() {
        let raw: f64 = kani::any();
        let v = FltF64SanNovTf::new(raw);
        let inner = ref_flt_f64_san_nov_tf::sanitize(raw).to_bits();
        { let r: &f64 = v.as_ref(); assert!((*r).to_bits() == inner, "as_ref() exposes the stored value"); }
        { let r: &f64 = &*v; assert!((*r).to_bits() == inner, "deref() exposes the stored value"); }
        { let r: &f64 = ::core::borrow::Borrow::borrow(&v); assert!((*r).to_bits() == inner, "borrow() exposes the stored value"); }
        { let c = v.clone(); assert!(c.into_inner().to_bits() == inner, "clone() is an equal value"); }
        { let r: f64 = v.into(); assert!(r.to_bits() == inner, "into() is the stored value"); }

        kani::cover!(true, "reached");
    }
    #[kani::proof]
    fn k_flt_f64_san_nov_tf__comparisons() {
        let ra: f64 = kani::any();
        let rb: f64 = kani::any();
        let a = FltF64SanNovTf::new(ra);
        let b = FltF64SanNovTf::new(rb);
        let ia = ref_flt_f64_san_nov_tf::sanitize(ra); let ib = ref_flt_f64_san_nov_tf::sanitize(rb);
        assert!((a == b) == (ia == ib), "== agrees with the inner values");
        assert!((a != b) == (ia != ib), "!= agrees with the inner values");
        assert!(a.partial_cmp(&b) == ia.partial_cmp(&ib), "partial_cmp agrees with the inner values");
        assert!((a < b) == (ia < ib) && (a <= b) == (ia <= ib) && (a > b) == (ia > ib) && (a >= b) == (ia >= ib), "comparison operators agree");

        kani::cover!(true, "reached");
    }
    #[kani::proof]
    fn k_flt_f64_nothing__views() {
        let raw: f64 = kani::any();
        let v = FltF64Nothing::new(raw);
        let inner = ref_flt_f64_nothing::sanitize(raw).to_bits();
        { let r: &f64 = v.as_ref(); assert!((*r).to_bits() == inner, "as_ref() exposes the stored value"); }
        { let r: &f64 = &*v; assert!((*r).to_bits() == inner, "deref() exposes the stored value"); }
        { let r: &f64 = ::core::borrow::Borrow::borrow(&v); assert!((*r).to_bits() == inner, "borrow() exposes the stored value"); }
        { let c = v.clone(); assert!(c.into_inner().to_bits() == inner, "clone() is an equal value"); }
        { let r: f64 = v.into(); assert!(r.to_bits() == inner, "into() is the stored value"); }

        kani::cover!(true, "reached");
    }
    #[kani::proof]
    fn k_flt_f64_nothing__comparisons() {
        let ra: f64 = kani::any();
        let rb: f64 = kani::any();
        let a = FltF64Nothing::new(ra);
        let b = FltF64Nothing::new(rb);
        let ia = ref_flt_f64_nothing::sanitize(ra); let ib = ref_flt_f64_nothing::sanitize(rb);
        assert!((a == b) == (ia == ib), "== agrees with the inner values");
        assert!((a != b) == (ia != ib), "!= agrees with the inner values");
        assert!(a.partial_cmp(&b) == ia.partial_cmp(&ib), "partial_cmp agrees with the inner values");
        assert!((a < b) == (ia < ib) && (a <= b) == (ia <= ib) && (a > b) == (ia > ib) && (a >= b) == (ia >= ib), "comparison operators agree");

        kani::cover!(true, "reached");
    }
    #[kani::proof]
    fn k_flt_f64_greater_or_equal_lit_zero__views() {
        let raw: f64 = kani::any();
        let v_r = FltF64GreaterOrEqualLitZero::try_new(raw);
        kani::assume(v_r.is_ok());
        let v = v_r.unwrap();
        let inner = ref_flt_f64_greater_or_equal_lit_zero::sanitize(raw).to_bits();
        { let r: &f64 = v.as_ref(); assert!((*r).to_bits() == inner, "as_ref() exposes the stored value"); }
        { let r: &f64 = &*v; assert!((*r).to_bits() == inner, "deref() exposes the stored value"); }
        { let r: &f64 = ::core::borrow::Borrow::borrow(&v); assert!((*r).to_bits() == inner, "borrow() exposes the stored value"); }
        { let c = v.clone(); assert!(c.into_inner().to_bits() == inner, "clone() is an equal value"); }
        { let r: f64 = v.into(); assert!(r.to_bits() == inner, "into() is the stored value"); }

        kani::cover!(true, "reached");
    }
    #[kani::proof]
    fn k_flt_f64_greater_or_equal_lit_zero__comparisons() {
        let ra: f64 = kani::any();
        let rb: f64 = kani::any();
        let a_r = FltF64GreaterOrEqualLitZero::try_new(ra);
        kani::assume(a_r.is_ok());
        let a = a_r.unwrap();
        let b_r = FltF64GreaterOrEqualLitZero::try_new(rb);
        kani::assume(b_r.is_ok());
        let b = b_r.unwrap();
        let ia = ref_flt_f64_greater_or_equal_lit_zero::sanitize(ra); let ib = ref_flt_f64_greater_or_equal_lit_zero::sanitize(rb);
        assert!((a == b) == (ia == ib), "== agrees with the inner values");
        assert!((a != b) == (ia != ib), "!= agrees with the inner values");
        assert!(a.partial_cmp(&b) == ia.partial_cmp(&ib), "partial_cmp agrees with the inner values");
        assert!((a < b) == (ia < ib) && (a <= b) == (ia <= ib) && (a > b) == (ia > ib) && (a >= b) == (ia >= ib), "comparison operators agree");

        kani::cover!(true, "reached");
    }
    #[kani::proof]
    fn k_flt_f64_greater_lit_negzero__views() {
        let raw: f64 = kani::any();
        let v_r = FltF64GreaterLitNegzero::try_new(raw);
        kani::assume(v_r.is_ok());
        let v = v_r.unwrap();
        let inner = ref_flt_f64_greater_lit_negzero::sanitize(raw).to_bits();
        { let r: &f64 = v.as_ref(); assert!((*r).to_bits() == inner, "as_ref() exposes the stored value"); }
        { let r: &f64 = &*v; assert!((*r).to_bits() == inner, "deref() exposes the stored value"); }
        { let r: &f64 = ::core::borrow::Borrow::borrow(&v); assert!((*r).to_bits() == inner, "borrow() exposes the stored value"); }
        { let c = v.clone(); assert!(c.into_inner().to_bits() == inner, "clone() is an equal value"); }
        { let r: f64 = v.into(); assert!(r.to_bits() == inner, "into() is the stored value"); }

        kani::cover!(true, "reached");
    }
    #[kani::proof]
    fn k_flt_f64_greater_lit_negzero__comparisons() {
        let ra: f64 = kani::any();
        let rb: f64 = kani::any();
        let a_r = FltF64GreaterLitNegzero::try_new(ra);
        kani::assume(a_r.is_ok());
        let a = a_r.unwrap();
        let b_r = FltF64GreaterLitNegzero::try_new(rb);
        kani::assume(b_r.is_ok());
        let b = b_r.unwrap();
        let ia = ref_flt_f64_greater_lit_negzero::sanitize(ra); let ib = ref_flt_f64_greater_lit_negzero::sanitize(rb);
        assert!((a == b) == (ia == ib), "== agrees with the inner values");
        assert!((a != b) == (ia != ib), "!= agrees with the inner values");
        assert!(a.partial_cmp(&b) == ia.partial_cmp(&ib), "partial_cmp agrees with the inner values");
        assert!((a < b) == (ia < ib) && (a <= b) == (ia <= ib) && (a > b) == (ia > ib) && (a >= b) == (ia >= ib), "comparison operators agree");

        kani::cover!(true, "reached");
    }
    #[kani::proof]
    fn k_flt_f64_less_lit_big__views() {
        let raw: f64 = kani::any();
        let v_r = FltF64LessLitBig::try_new(raw);
        kani::assume(v_r.is_ok());
        let v = v_r.unwrap();
        let inner = ref_flt_f64_less_lit_big::sanitize(raw).to_bits();
        { let r: &f64 = v.as_ref(); assert!((*r).to_bits() == inner, "as_ref() exposes the stored value"); }
        { let r: &f64 = &*v; assert!((*r).to_bits() == inner, "deref() exposes the stored value"); }
        { let r: &f64 = ::core::borrow::Borrow::borrow(&v); assert!((*r).to_bits() == inner, "borrow() exposes the stored value"); }
        { let c = v.clone(); assert!(c.into_inner().to_bits() == inner, "clone() is an equal value"); }
        { let r: f64 = v.into(); assert!(r.to_bits() == inner, "into() is the stored value"); }

        kani::cover!(true, "reached");
    }
    #[kani::proof]
    fn k_flt_f64_less_lit_big__comparisons() {
        let ra: f64 = kani::any();
        let rb: f64 = kani::any();
        let a_r = FltF64LessLitBig::try_new(ra);
        kani::assume(a_r.is_ok());
        let a = a_r.unwrap();
        let b_r = FltF64LessLitBig::try_new(rb);
        kani::assume(b_r.is_ok());
        let b = b_r.unwrap();
        let ia = ref_flt_f64_less_lit_big::sanitize(ra); let ib = ref_flt_f64_less_lit_big::sanitize(rb);
        assert!((a == b) == (ia == ib), "== agrees with the inner values");
        assert!((a != b) == (ia != ib), "!= agrees with the inner values");
        assert!(a.partial_cmp(&b) == ia.partial_cmp(&ib), "partial_cmp agrees with the inner values");
        assert!((a < b) == (ia < ib) && (a <= b) == (ia <= ib) && (a > b) == (ia > ib) && (a >= b) == (ia >= ib), "comparison operators agree");

        kani::cover!(true, "reached");
    }
    #[kani::proof]
    fn k_flt_f64_greater_lit_small__views() {
        let raw: f64 = kani::any();
        let v_r = FltF64GreaterLitSmall::try_new(raw);
        kani::assume(v_r.is_ok());
        let v = v_r.unwrap();
        let inner = ref_flt_f64_greater_lit_small::sanitize(raw).to_bits();
        { let r: &f64 = v.as_ref(); assert!((*r).to_bits() == inner, "as_ref() exposes the stored value"); }
        { let r: &f64 = &*v; assert!((*r).to_bits() == inner, "deref() exposes the stored value"); }
        { let r: &f64 = ::core::borrow::Borrow::borrow(&v); assert!((*r).to_bits() == inner, "borrow() exposes the stored value"); }
        { let c = v.clone(); assert!(c.into_inner().to_bits() == inner, "clone() is an equal value"); }
        { let r: f64 = v.into(); assert!(r.to_bits() == inner, "into() is the stored value"); }

        kani::cover!(true, "reached");
    }
    #[kani::proof]
    fn k_flt_f64_greater_lit_small__comparisons() {
        let ra: f64 = kani::any();
        let rb: f64 = kani::any();
        let a_r = FltF64GreaterLitSmall::try_new(ra);
        kani::assume(a_r.is_ok());
        let a = a_r.unwrap();
        let b_r = FltF64GreaterLitSmall::try_new(rb);
        kani::assume(b_r.is_ok());
        let b = b_r.unwrap();
        let ia = ref_flt_f64_greater_lit_small::sanitize(ra); let ib = ref_flt_f64_greater_lit_small::sanitize(rb);
        assert!((a == b) == (ia == ib), "== agrees with the inner values");
        assert!((a != b) == (ia != ib), "!= agrees with the inner values");
        assert!(a.partial_cmp(&b) == ia.partial_cmp(&ib), "partial_cmp agrees with the inner values");
        assert!((a < b) == (ia < ib) && (a <= b) == (ia <= ib) && (a > b) == (ia > ib) && (a >= b) == (ia >= ib), "comparison operators agree");

        kani::cover!(true, "reached");
    }
    #[kani::proof]
    fn k_flt_f64_less_or_equal_lit_neg__views() {
        let raw: f64 = kani::any();
        let v_r = FltF64LessOrEqualLitNeg::try_new(raw);
        kani::assume(v_r.is_ok());
        let v = v_r.unwrap();
        let inner = ref_flt_f64_less_or_equal_lit_neg::sanitize(raw).to_bits();
        { let r: &f64 = v.as_ref(); assert!((*r).to_bits() == inner, "as_ref() exposes the stored value"); }
        { let r: &f64 = &*v; assert!((*r).to_bits() == inner, "deref() exposes the stored value"); }
        { let r: &f64 = ::core::borrow::Borrow::borrow(&v); assert!((*r).to_bits() == inner, "borrow() exposes the stored value"); }
        { let c = v.clone(); assert!(c.into_inner().to_bits() == inner, "clone() is an equal value"); }
        { let r: f64 = v.into(); assert!(r.to_bits() == inner, "into() is the stored value"); }

        kani::cover!(true, "reached");
    }
    #[kani::proof]
    fn k_flt_f64_less_or_equal_lit_neg__comparisons() {
        let ra: f64 = kani::any();
        let rb: f64 = kani::any();
        let a_r = FltF64LessOrEqualLitNeg::try_new(ra);
        kani::assume(a_r.is_ok());
        let a = a_r.unwrap();
        let b_r = FltF64LessOrEqualLitNeg::try_new(rb);
        kani::assume(b_r.is_ok());
        let b = b_r.unwrap();
        let ia = ref_flt_f64_less_or_equal_lit_neg::sanitize(ra); let ib = ref_flt_f64_less_or_equal_lit_neg::sanitize(rb);
        assert!((a == b) == (ia == ib), "== agrees with the inner values");
        assert!((a != b) == (ia != ib), "!= agrees with the inner values");
        assert!(a.partial_cmp(&b) == ia.partial_cmp(&ib), "partial_cmp agrees with the inner values");
        assert!((a < b) == (ia < ib) && (a <= b) == (ia <= ib) && (a > b) == (ia > ib) && (a >= b) == (ia >= ib), "comparison operators agree");

        kani::cover!(true, "reached");
    }
    #[kani::proof]
    fn k_flt_f64_less_or_equal_lit_intlit__views() {
        let raw: f64 = kani::any();
        let v_r = FltF64LessOrEqualLitIntlit::try_new(raw);
        kani::assume(v_r.is_ok());
        let v = v_r.unwrap();
        let inner = ref_flt_f64_less_or_equal_lit_intlit::sanitize(raw).to_bits();
        { let r: &f64 = v.as_ref(); assert!((*r).to_bits() == inner, "as_ref() exposes the stored value"); }
        { let r: &f64 = &*v; assert!((*r).to_bits() == inner, "deref() exposes the stored value"); }
        { let r: &f64 = ::core::borrow::Borrow::borrow(&v); assert!((*r).to_bits() == inner, "borrow() exposes the stored value"); }
        { let c = v.clone(); assert!(c.into_inner().to_bits() == inner, "clone() is an equal value"); }
        { let r: f64 = v.into(); assert!(r.to_bits() == inner, "into() is the stored value"); }

        kani::cover!(true, "reached");
    }
    #[kani::proof]
    fn k_flt_f64_less_or_equal_lit_intlit__comparisons() {
        let ra: f64 = kani::any();
        let rb: f64 = kani::any();
        let a_r = FltF64LessOrEqualLitIntlit::try_new(ra);
        kani::assume(a_r.is_ok());
        let a = a_r.unwrap();
        let b_r = FltF64LessOrEqualLitIntlit::try_new(rb);
        kani::assume(b_r.is_ok());
        let b = b_r.unwrap();
        let ia = ref_flt_f64_less_or_equal_lit_intlit::sanitize(ra); let ib = ref_flt_f64_less_or_equal_lit_intlit::sanitize(rb);
        assert!((a == b) == (ia == ib), "== agrees with the inner values");
        assert!((a != b) == (ia != ib), "!= agrees with the inner values");
        assert!(a.partial_cmp(&b) == ia.partial_cmp(&ib), "partial_cmp agrees with the inner values");
        assert!((a < b) == (ia < ib) && (a <= b) == (ia <= ib) && (a > b) == (ia > ib) && (a >= b) == (ia >= ib), "comparison operators agree");

        kani::cover!(true, "reached");
    }
    #[kani::proof]
    fn k_flt_f64_greater_or_equal_lit_under__views() {
        let raw: f64 = kani::any();
        let v_r = FltF64GreaterOrEqualLitUnder::try_new(raw);
        kani::assume(v_r.is_ok());
        let v = v_r.unwrap();
        let inner = ref_flt_f64_greater_or_equal_lit_under::sanitize(raw).to_bits();
        { let r: &f64 = v.as_ref(); assert!((*r).to_bits() == inner, "as_ref() exposes the stored value"); }
        { let r: &f64 = &*v; assert!((*r).to_bits() == inner, "deref() exposes the stored value"); }
        { let r: &f64 = ::core::borrow::Borrow::borrow(&v); assert!((*r).to_bits() == inner, "borrow() exposes the stored value"); }
        { let c = v.clone(); assert!(c.into_inner().to_bits() == inner, "clone() is an equal value"); }
        { let r: f64 = v.into(); assert!(r.to_bits() == inner, "into() is the stored value"); }

        kani::cover!(true, "reached");
    }
    #[kani::proof]
    fn k_flt_f64_greater_or_equal_lit_under__comparisons() {
        let ra: f64 = kani::any();
        let rb: f64 = kani::any();
        let a_r = FltF64GreaterOrEqualLitUnder::try_new(ra);
        kani::assume(a_r.is_ok());
        let a = a_r.unwrap();
        let b_r = FltF64GreaterOrEqualLitUnder::try_new(rb);
        kani::assume(b_r.is_ok());
        let b = b_r.unwrap();
        let ia = ref_flt_f64_greater_or_equal_lit_under::sanitize(ra); let ib = ref_flt_f64_greater_or_equal_lit_under::sanitize(rb);
        assert!((a == b) == (ia == ib), "== agrees with the inner values");
        assert!((a != b) == (ia != ib), "!= agrees with the inner values");
        assert!(a.partial_cmp(&b) == ia.partial_cmp(&ib), "partial_cmp agrees with the inner values");
        assert!((a < b) == (ia < ib) && (a <= b) == (ia <= ib) && (a > b) == (ia > ib) && (a >= b) == (ia >= ib), "comparison operators agree");

        kani::cover!(true, "reached");
    }
    #[kani::proof]
    fn k_flt_f64_fin_ge_le_lit_const__views() {
        let raw: f64 = kani::any();
        let v_r = FltF64FinGeLeLitConst::try_new(raw);
        kani::assume(v_r.is_ok());
        let v = v_r.unwrap();
        let inner = ref_flt_f64_fin_ge_le_lit_const::sanitize(raw).to_bits();
        { let r: &f64 = v.as_ref(); assert!((*r).to_bits() == inner, "as_ref() exposes the stored value"); }
        { let r: &f64 = &*v; assert!((*r).to_bits() == inner, "deref() exposes the stored value"); }
        { let r: &f64 = ::core::borrow::Borrow::borrow(&v); assert!((*r).to_bits() == inner, "borrow() exposes the stored value"); }
        { let c = v.clone(); assert!(c.into_inner().to_bits() == inner, "clone() is an equal value"); }
        { let r: f64 = v.into(); assert!(r.to_bits() == inner, "into() is the stored value"); }

        kani::cover!(true, "reached");
    }
    #[kani::proof]
    fn k_flt_f64_fin_ge_le_lit_const__comparisons() {
        let ra: f64 = kani::any();
        let rb: f64 = kani::any();
        let a_r = FltF64FinGeLeLitConst::try_new(ra);
        kani::assume(a_r.is_ok());
        let a = a_r.unwrap();
        let b_r = FltF64FinGeLeLitConst::try_new(rb);
        kani::assume(b_r.is_ok());
        let b = b_r.unwrap();
        let ia = ref_flt_f64_fin_ge_le_lit_const::sanitize(ra); let ib = ref_flt_f64_fin_ge_le_lit_const::sanitize(rb);
        assert!((a == b) == (ia == ib), "== agrees with the inner values");
        assert!((a != b) == (ia != ib), "!= agrees with the inner values");
        assert!(a.partial_cmp(&b) == ia.partial_cmp(&ib), "partial_cmp agrees with the inner values");
        assert!((a < b) == (ia < ib) && (a <= b) == (ia <= ib) && (a > b) == (ia > ib) && (a >= b) == (ia >= ib), "comparison operators agree");
        assert!(Some(a.cmp(&b)) == ia.partial_cmp(&ib), "cmp agrees with the comparison of the inner floats (incl. -0.0 vs 0.0)");

        kani::cover!(true, "reached");
    }
    #[kani::proof]
    fn k_kint_u8_ge_le_sym__views() {
        unsafe { SYM_LO_U8 = kani::any(); }
        unsafe { SYM_HI_U8 = kani::any(); }
        let raw: u8 = kani::any();
        let v_r = KintU8GeLeSym::try_new(raw);
        kani::assume(v_r.is_ok());
        let v = v_r.unwrap();
        let inner = ref_kint_u8_ge_le_sym::sanitize(raw);
        { let r: &u8 = v.as_ref(); assert!((*r) == inner, "as_ref() exposes the stored value"); }
        { let r: &u8 = &*v; assert!((*r) == inner, "deref() exposes the stored value"); }
        { let r: &u8 = ::core::borrow::Borrow::borrow(&v); assert!((*r) == inner, "borrow() exposes the stored value"); }
        { let c = v.clone(); assert!(c.into_inner() == inner, "clone() is an equal value"); }
        { let r: u8 = v.into(); assert!(r == inner, "into() is the stored value"); }

        kani::cover!(true, "reached");
    }
    #[kani::proof]
    fn k_kint_u8_ge_le_sym__comparisons() {
        unsafe { SYM_LO_U8 = kani::any(); }
        unsafe { SYM_HI_U8 = kani::any(); }
        let ra: u8 = kani::any();
        let rb: u8 = kani::any();
        let a_r = KintU8GeLeSym::try_new(ra);
        kani::assume(a_r.is_ok());
        let a = a_r.unwrap();
        let b_r = KintU8GeLeSym::try_new(rb);
        kani::assume(b_r.is_ok());
        let b = b_r.unwrap();
        let ia = ref_kint_u8_ge_le_sym::sanitize(ra); let ib = ref_kint_u8_ge_le_sym::sanitize(rb);
        assert!((a == b) == (ia == ib), "== agrees with the inner values");
        assert!((a != b) == (ia != ib), "!= agrees with the inner values");
        assert!(a.partial_cmp(&b) == ia.partial_cmp(&ib), "partial_cmp agrees with the inner values");
        assert!((a < b) == (ia < ib) && (a <= b) == (ia <= ib) && (a > b) == (ia > ib) && (a >= b) == (ia >= ib), "comparison operators agree");
        assert!(a.cmp(&b) == ia.cmp(&ib), "cmp agrees with the inner values");

        kani::cover!(true, "reached");
    }
    #[kani::proof]
    fn k_kint_u8_ge_le_sym__hash() {
        unsafe { SYM_LO_U8 = kani::any(); }
        unsafe { SYM_HI_U8 = kani::any(); }
        let raw: u8 = kani::any();
        let v_r = KintU8GeLeSym::try_new(raw);
        kani::assume(v_r.is_ok());
        let v = v_r.unwrap();
        use ::core::hash::Hash;
        let mut h1 = RecHasher::new(); let mut h2 = RecHasher::new();
        v.hash(&mut h1);
        let b: &u8 = ::core::borrow::Borrow::borrow(&v);
        b.hash(&mut h2);
        assert!(h1.n == h2.n && h1.n < 9 && h1.log == h2.log, "Hash feeds the hasher exactly what the borrowed inner value feeds");

        kani::cover!(true, "reached");
    }
    #[kani::proof]
    fn k_kint_u8_san_nov__views() {
        let raw: u8 = kani::any();
        let v = KintU8SanNov::new(raw);
        let inner = ref_kint_u8_san_nov::sanitize(raw);
        { let r: &u8 = v.as_ref(); assert!((*r) == inner, "as_ref() exposes the stored value"); }
        { let r: &u8 = &*v; assert!((*r) == inner, "deref() exposes the stored value"); }
        { let r: &u8 = ::core::borrow::Borrow::borrow(&v); assert!((*r) == inner, "borrow() exposes the stored value"); }
        { let c = v.clone(); assert!(c.into_inner() == inner, "clone() is an equal value"); }
        { let r: u8 = v.into(); assert!(r == inner, "into() is the stored value"); }

        kani::cover!(true, "reached");
    }
    #[kani::proof]
    fn k_kint_u8_san_nov__comparisons() {
        let ra: u8 = kani::any();
        let rb: u8 = kani::any();
        let a = KintU8SanNov::new(ra);
        let b = KintU8SanNov::new(rb);
        let ia = ref_kint_u8_san_nov::sanitize(ra); let ib = ref_kint_u8_san_nov::sanitize(rb);
        assert!((a == b) == (ia == ib), "== agrees with the inner values");
        assert!((a != b) == (ia != ib), "!= agrees with the inner values");
        assert!(a.partial_cmp(&b) == ia.partial_cmp(&ib), "partial_cmp agrees with the inner values");
        assert!((a < b) == (ia < ib) && (a <= b) == (ia <= ib) && (a > b) == (ia > ib) && (a >= b) == (ia >= ib), "comparison operators agree");
        assert!(a.cmp(&b) == ia.cmp(&ib), "cmp agrees with the inner values");

        kani::cover!(true, "reached");
    }
    #[kani::proof]
    fn k_kint_u8_san_nov__hash() {
        let raw: u8 = kani::any();
        let v = KintU8SanNov::new(raw);
        use ::core::hash::Hash;
        let mut h1 = RecHasher::new(); let mut h2 = RecHasher::new();
        v.hash(&mut h1);
        let b: &u8 = ::core::borrow::Borrow::borrow(&v);
        b.hash(&mut h2);
        assert!(h1.n == h2.n && h1.n < 9 && h1.log == h2.log, "Hash feeds the hasher exactly what the borrowed inner value feeds");

        kani::cover!(true, "reached");
    }
    #[kani::proof]
    fn k_kint_i8_ge_le_sym__views() {
        unsafe { SYM_LO_I8 = kani::any(); }
        unsafe { SYM_HI_I8 = kani::any(); }
        let raw: i8 = kani::any();
        let v_r = KintI8GeLeSym::try_new(raw);
        kani::assume(v_r.is_ok());
        let v = v_r.unwrap();
        let inner = ref_kint_i8_ge_le_sym::sanitize(raw);
        { let r: &i8 = v.as_ref(); assert!((*r) == inner, "as_ref() exposes the stored value"); }
        { let r: &i8 = &*v; assert!((*r) == inner, "deref() exposes the stored value"); }
        { let r: &i8 = ::core::borrow::Borrow::borrow(&v); assert!((*r) == inner, "borrow() exposes the stored value"); }
        { let c = v.clone(); assert!(c.into_inner() == inner, "clone() is an equal value"); }
        { let r: i8 = v.into(); assert!(r == inner, "into() is the stored value"); }

        kani::cover!(true, "reached");
    }
    #[kani::proof]
    fn k_kint_i8_ge_le_sym__comparisons() {
        unsafe { SYM_LO_I8 = kani::any(); }
        unsafe { SYM_HI_I8 = kani::any(); }
        let ra: i8 = kani::any();
        let rb: i8 = kani::any();
        let a_r = KintI8GeLeSym::try_new(ra);
        kani::assume(a_r.is_ok());
        let a = a_r.unwrap();
        let b_r = KintI8GeLeSym::try_new(rb);
        kani::assume(b_r.is_ok());
        let b = b_r.unwrap();
        let ia = ref_kint_i8_ge_le_sym::sanitize(ra); let ib = ref_kint_i8_ge_le_sym::sanitize(rb);
        assert!((a == b) == (ia == ib), "== agrees with the inner values");
        assert!((a != b) == (ia != ib), "!= agrees with the inner values");
        assert!(a.partial_cmp(&b) == ia.partial_cmp(&ib), "partial_cmp agrees with the inner values");
        assert!((a < b) == (ia < ib) && (a <= b) == (ia <= ib) && (a > b) == (ia > ib) && (a >= b) == (ia >= ib), "comparison operators agree");
        assert!(a.cmp(&b) == ia.cmp(&ib), "cmp agrees with the inner values");

        kani::cover!(true, "reached");
    }
    #[kani::proof]
    fn k_kint_i8_ge_le_sym__hash() {
        unsafe { SYM_LO_I8 = kani::any(); }
        unsafe { SYM_HI_I8 = kani::any(); }
        let raw: i8 = kani::any();
        let v_r = KintI8GeLeSym::try_new(raw);
        kani::assume(v_r.is_ok());
        let v = v_r.unwrap();
        use ::core::hash::Hash;
        let mut h1 = RecHasher::new(); let mut h2 = RecHasher::new();
        v.hash(&mut h1);
        let b: &i8 = ::core::borrow::Borrow::borrow(&v);
        b.hash(&mut h2);
        assert!(h1.n == h2.n && h1.n < 9 && h1.log == h2.log, "Hash feeds the hasher exactly what the borrowed inner value feeds");

        kani::cover!(true, "reached");
    }
    #[kani::proof]
    fn k_kint_i8_san_nov__views() {
        let raw: i8 = kani::any();
        let v = KintI8SanNov::new(raw);
        let inner = ref_kint_i8_san_nov::sanitize(raw);
        { let r: &i8 = v.as_ref(); assert!((*r) == inner, "as_ref() exposes the stored value"); }
        { let r: &i8 = &*v; assert!((*r) == inner, "deref() exposes the stored value"); }
        { let r: &i8 = ::core::borrow::Borrow::borrow(&v); assert!((*r) == inner, "borrow() exposes the stored value"); }
        { let c = v.clone(); assert!(c.into_inner() == inner, "clone() is an equal value"); }
        { let r: i8 = v.into(); assert!(r == inner, "into() is the stored value"); }

        kani::cover!(true, "reached");
    }
    #[kani::proof]
    fn k_kint_i8_san_nov__comparisons() {
        let ra: i8 = kani::any();
        let rb: i8 = kani::any();
        let a = KintI8SanNov::new(ra);
        let b = KintI8SanNov::new(rb);
        let ia = ref_kint_i8_san_nov::sanitize(ra); let ib = ref_kint_i8_san_nov::sanitize(rb);
        assert!((a == b) == (ia == ib), "== agrees with the inner values");
        assert!((a != b) == (ia != ib), "!= agrees with the inner values");
        assert!(a.partial_cmp(&b) == ia.partial_cmp(&ib), "partial_cmp agrees with the inner values");
        assert!((a < b) == (ia < ib) && (a <= b) == (ia <= ib) && (a > b) == (ia > ib) && (a >= b) == (ia >= ib), "comparison operators agree");
        assert!(a.cmp(&b) == ia.cmp(&ib), "cmp agrees with the inner values");

        kani::cover!(true, "reached");
    }
    #[kani::proof]
    fn k_kint_i8_san_nov__hash() {
        let raw: i8 = kani::any();
        let v = KintI8SanNov::new(raw);
        use ::core::hash::Hash;
        let mut h1 = RecHasher::new(); let mut h2 = RecHasher::new();
        v.hash(&mut h1);
        let b: &i8 = ::core::borrow::Borrow::borrow(&v);
        b.hash(&mut h2);
        assert!(h1.n == h2.n && h1.n < 9 && h1.log == h2.log, "Hash feeds the hasher exactly what the borrowed inner value feeds");

        kani::cover!(true, "reached");
    }
    #[kani::proof]
    fn k_kint_u16_ge_le_sym__views() {
        unsafe { SYM_LO_U16 = kani::any(); }
        unsafe { SYM_HI_U16 = kani::any(); }
        let raw: u16 = kani::any();
        let v_r = KintU16GeLeSym::try_new(raw);
        kani::assume(v_r.is_ok());
        let v = v_r.unwrap();
        let inner = ref_kint_u16_ge_le_sym::sanitize(raw);
        { let r: &u16 = v.as_ref(); assert!((*r) == inner, "as_ref() exposes the stored value"); }
        { let r: &u16 = &*v; assert!((*r) == inner, "deref() exposes the stored value"); }
        { let r: &u16 = ::core::borrow::Borrow::borrow(&v); assert!((*r) == inner, "borrow() exposes the stored value"); }
        { let c = v.clone(); assert!(c.into_inner() == inner, "clone() is an equal value"); }
        { let r: u16 = v.into(); assert!(r == inner, "into() is the stored value"); }

        kani::cover!(true, "reached");
    }
    #[kani::proof]
    fn k_kint_u16_ge_le_sym__comparisons() {
        unsafe { SYM_LO_U16 = kani::any(); }
        unsafe { SYM_HI_U16 = kani::any(); }
        let ra: u16 = kani::any();
        let rb: u16 = kani::any();
        let a_r = KintU16GeLeSym::try_new(ra);
        kani::assume(a_r.is_ok());
        let a = a_r.unwrap();
        let b_r = KintU16GeLeSym::try_new(rb);
        kani::assume(b_r.is_ok());
        let b = b_r.unwrap();
        let ia = ref_kint_u16_ge_le_sym::sanitize(ra); let ib = ref_kint_u16_ge_le_sym::sanitize(rb);
        assert!((a == b) == (ia == ib), "== agrees with the inner values");
        assert!((a != b) == (ia != ib), "!= agrees with the inner values");
        assert!(a.partial_cmp(&b) == ia.partial_cmp(&ib), "partial_cmp agrees with the inner values");
        assert!((a < b) == (ia < ib) && (a <= b) == (ia <= ib) && (a > b) == (ia > ib) && (a >= b) == (ia >= ib), "comparison operators agree");
        assert!(a.cmp(&b) == ia.cmp(&ib), "cmp agrees with the inner values");

        kani::cover!(true, "reached");
    }
    #[kani::proof]
    fn k_kint_u16_ge_le_sym__hash() {
        unsafe { SYM_LO_U16 = kani::any(); }
        unsafe { SYM_HI_U16 = kani::any(); }
        let raw: u16 = kani::any();
        let v_r = KintU16GeLeSym::try_new(raw);
        kani::assume(v_r.is_ok());
        let v = v_r.unwrap();
        use ::core::hash::Hash;
        let mut h1 = RecHasher::new(); let mut h2 = RecHasher::new();
        v.hash(&mut h1);
        let b: &u16 = ::core::borrow::Borrow::borrow(&v);
        b.hash(&mut h2);
        assert!(h1.n == h2.n && h1.n < 9 && h1.log == h2.log, "Hash feeds the hasher exactly what the borrowed inner value feeds");

        kani::cover!(true, "reached");
    }
    #[kani::proof]
    fn k_kint_u16_san_nov__views() {
        let raw: u16 = kani::any();
        let v = KintU16SanNov::new(raw);
        let inner = ref_kint_u16_san_nov::sanitize(raw);
        { let r: &u16 = v.as_ref(); assert!((*r) == inner, "as_ref() exposes the stored value"); }
        { let r: &u16 = &*v; assert!((*r) == inner, "deref() exposes the stored value"); }
        { let r: &u16 = ::core::borrow::Borrow::borrow(&v); assert!((*r) == inner, "borrow() exposes the stored value"); }
        { let c = v.clone(); assert!(c.into_inner() == inner, "clone() is an equal value"); }
        { let r: u16 = v.into(); assert!(r == inner, "into() is the stored value"); }

        kani::cover!(true, "reached");
    }
    #[kani::proof]
    fn k_kint_u16_san_nov__comparisons() {
        let ra: u16 = kani::any();
        let rb: u16 = kani::any();
        let a = KintU16SanNov::new(ra);
        let b = KintU16SanNov::new(rb);
        let ia = ref_kint_u16_san_nov::sanitize(ra); let ib = ref_kint_u16_san_nov::sanitize(rb);
        assert!((a == b) == (ia == ib), "== agrees with the inner values");
        assert!((a != b) == (ia != ib), "!= agrees with the inner values");
        assert!(a.partial_cmp(&b) == ia.partial_cmp(&ib), "partial_cmp agrees with the inner values");
        assert!((a < b) == (ia < ib) && (a <= b) == (ia <= ib) && (a > b) == (ia > ib) && (a >= b) == (ia >= ib), "comparison operators agree");
        assert!(a.cmp(&b) == ia.cmp(&ib), "cmp agrees with the inner values");

        kani::cover!(true, "reached");
    }
    #[kani::proof]
    fn k_kint_u16_san_nov__hash() {
        let raw: u16 = kani::any();
        let v = KintU16SanNov::new(raw);
        use ::core::hash::Hash;
        let mut h1 = RecHasher::new(); let mut h2 = RecHasher::new();
        v.hash(&mut h1);
        let b: &u16 = ::core::borrow::Borrow::borrow(&v);
        b.hash(&mut h2);
        assert!(h1.n == h2.n && h1.n < 9 && h1.log == h2.log, "Hash feeds the hasher exactly what the borrowed inner value feeds");

        kani::cover!(true, "reached");
    }
    #[kani::proof]
    fn k_kint_i32_ge_le_sym__views() {
        unsafe { SYM_LO_I32 = kani::any(); }
        unsafe { SYM_HI_I32 = kani::any(); }
        let raw: i32 = kani::any();
        let v_r = KintI32GeLeSym::try_new(raw);
        kani::assume(v_r.is_ok());
        let v = v_r.unwrap();
        let inner = ref_kint_i32_ge_le_sym::sanitize(raw);
        { let r: &i32 = v.as_ref(); assert!((*r) == inner, "as_ref() exposes the stored value"); }
        { let r: &i32 = &*v; assert!((*r) == inner, "deref() exposes the stored value"); }
        { let r: &i32 = ::core::borrow::Borrow::borrow(&v); assert!((*r) == inner, "borrow() exposes the stored value"); }
        { let c = v.clone(); assert!(c.into_inner() == inner, "clone() is an equal value"); }
        { let r: i32 = v.into(); assert!(r == inner, "into() is the stored value"); }

        kani::cover!(true, "reached");
    }
    #[kani::proof]
    fn k_kint_i32_ge_le_sym__comparisons() {
        unsafe { SYM_LO_I32 = kani::any(); }
        unsafe { SYM_HI_I32 = kani::any(); }
        let ra: i32 = kani::any();
        let rb: i32 = kani::any();
        let a_r = KintI32GeLeSym::try_new(ra);
        kani::assume(a_r.is_ok());
        let a = a_r.unwrap();
        let b_r = KintI32GeLeSym::try_new(rb);
        kani::assume(b_r.is_ok());
        let b = b_r.unwrap();
        let ia = ref_kint_i32_ge_le_sym::sanitize(ra); let ib = ref_kint_i32_ge_le_sym::sanitize(rb);
        assert!((a == b) == (ia == ib), "== agrees with the inner values");
        assert!((a != b) == (ia != ib), "!= agrees with the inner values");
        assert!(a.partial_cmp(&b) == ia.partial_cmp(&ib), "partial_cmp agrees with the inner values");
        assert!((a < b) == (ia < ib) && (a <= b) == (ia <= ib) && (a > b) == (ia > ib) && (a >= b) == (ia >= ib), "comparison operators agree");
        assert!(a.cmp(&b) == ia.cmp(&ib), "cmp agrees with the inner values");

        kani::cover!(true, "reached");
    }
    #[kani::proof]
    fn k_kint_i32_ge_le_sym__hash() {
        unsafe { SYM_LO_I32 = kani::any(); }
        unsafe { SYM_HI_I32 = kani::any(); }
        let raw: i32 = kani::any();
        let v_r = KintI32GeLeSym::try_new(raw);
        kani::assume(v_r.is_ok());
        let v = v_r.unwrap();
        use ::core::hash::Hash;
        let mut h1 = RecHasher::new(); let mut h2 = RecHasher::new();
        v.hash(&mut h1);
        let b: &i32 = ::core::borrow::Borrow::borrow(&v);
        b.hash(&mut h2);
        assert!(h1.n == h2.n && h1.n < 9 && h1.log == h2.log, "Hash feeds the hasher exactly what the borrowed inner value feeds");

        kani::cover!(true, "reached");
    }
    #[kani::proof]
    fn k_kint_i32_san_nov__views() {
        let raw: i32 = kani::any();
        let v = KintI32SanNov::new(raw);
        let inner = ref_kint_i32_san_nov::sanitize(raw);
        { let r: &i32 = v.as_ref(); assert!((*r) == inner, "as_ref() exposes the stored value"); }
        { let r: &i32 = &*v; assert!((*r) == inner, "deref() exposes the stored value"); }
        { let r: &i32 = ::core::borrow::Borrow::borrow(&v); assert!((*r) == inner, "borrow() exposes the stored value"); }
        { let c = v.clone(); assert!(c.into_inner() == inner, "clone() is an equal value"); }
        { let r: i32 = v.into(); assert!(r == inner, "into() is the stored value"); }

        kani::cover!(true, "reached");
    }
    #[kani::proof]
    fn k_kint_i32_san_nov__comparisons() {
        let ra: i32 = kani::any();
        let rb: i32 = kani::any();
        let a = KintI32SanNov::new(ra);
        let b = KintI32SanNov::new(rb);
        let ia = ref_kint_i32_san_nov::sanitize(ra); let ib = ref_kint_i32_san_nov::sanitize(rb);
        assert!((a == b) == (ia == ib), "== agrees with the inner values");
        assert!((a != b) == (ia != ib), "!= agrees with the inner values");
        assert!(a.partial_cmp(&b) == ia.partial_cmp(&ib), "partial_cmp agrees with the inner values");
        assert!((a < b) == (ia < ib) && (a <= b) == (ia <= ib) && (a > b) == (ia > ib) && (a >= b) == (ia >= ib), "comparison operators agree");
        assert!(a.cmp(&b) == ia.cmp(&ib), "cmp agrees with the inner values");

        kani::cover!(true, "reached");
    }
    #[kani::proof]
    fn k_kint_i32_san_nov__hash() {
        let raw: i32 = kani::any();
        let v = KintI32SanNov::new(raw);
        use ::core::hash::Hash;
        let mut h1 = RecHasher::new(); let mut h2 = RecHasher::new();
        v.hash(&mut h1);
        let b: &i32 = ::core::borrow::Borrow::borrow(&v);
        b.hash(&mut h2);
        assert!(h1.n == h2.n && h1.n < 9 && h1.log == h2.log, "Hash feeds the hasher exactly what the borrowed inner value feeds");

        kani::cover!(true, "reached");
    }
    #[kani::proof]
    fn k_kint_u64_ge_le_sym__views() {
        unsafe { SYM_LO_U64 = kani::any(); }
        unsafe { SYM_HI_U64 = kani::any(); }
        let raw: u64 = kani::any();
        let v_r = KintU64GeLeSym::try_new(raw);
        kani::assume(v_r.is_ok());
        let v = v_r.unwrap();
        let inner = ref_kint_u64_ge_le_sym::sanitize(raw);
        { let r: &u64 = v.as_ref(); assert!((*r) == inner, "as_ref() exposes the stored value"); }
        { let r: &u64 = &*v; assert!((*r) == inner, "deref() exposes the stored value"); }
        { let r: &u64 = ::core::borrow::Borrow::borrow(&v); assert!((*r) == inner, "borrow() exposes the stored value"); }
        { let c = v.clone(); assert!(c.into_inner() == inner, "clone() is an equal value"); }
        { let r: u64 = v.into(); assert!(r == inner, "into() is the stored value"); }

        kani::cover!(true, "reached");
    }
    #[kani::proof]
    fn k_kint_u64_ge_le_sym__comparisons() {
        unsafe { SYM_LO_U64 = kani::any(); }
        unsafe { SYM_HI_U64 = kani::any(); }
        let ra: u64 = kani::any();
        let rb: u64 = kani::any();
        let a_r = KintU64GeLeSym::try_new(ra);
        kani::assume(a_r.is_ok());
        let a = a_r.unwrap();
        let b_r = KintU64GeLeSym::try_new(rb);
        kani::assume(b_r.is_ok());
        let b = b_r.unwrap();
        let ia = ref_kint_u64_ge_le_sym::sanitize(ra); let ib = ref_kint_u64_ge_le_sym::sanitize(rb);
        assert!((a == b) == (ia == ib), "== agrees with the inner values");
        assert!((a != b) == (ia != ib), "!= agrees with the inner values");
        assert!(a.partial_cmp(&b) == ia.partial_cmp(&ib), "partial_cmp agrees with the inner values");
        assert!((a < b) == (ia < ib) && (a <= b) == (ia <= ib) && (a > b) == (ia > ib) && (a >= b) == (ia >= ib), "comparison operators agree");
        assert!(a.cmp(&b) == ia.cmp(&ib), "cmp agrees with the inner values");

        kani::cover!(true, "reached");
    }
    #[kani::proof]
    fn k_kint_u64_ge_le_sym__hash() {
        unsafe { SYM_LO_U64 = kani::any(); }
        unsafe { SYM_HI_U64 = kani::any(); }
        let raw: u64 = kani::any();
        let v_r = KintU64GeLeSym::try_new(raw);
        kani::assume(v_r.is_ok());
        let v = v_r.unwrap();
        use ::core::hash::Hash;
        let mut h1 = RecHasher::new(); let mut h2 = RecHasher::new();
        v.hash(&mut h1);
        let b: &u64 = ::core::borrow::Borrow::borrow(&v);
        b.hash(&mut h2);
        assert!(h1.n == h2.n && h1.n < 9 && h1.log == h2.log, "Hash feeds the hasher exactly what the borrowed inner value feeds");

        kani::cover!(true, "reached");
    }
    #[kani::proof]
    fn k_kint_u64_san_nov__views() {
        let raw: u64 = kani::any();
        let v = KintU64SanNov::new(raw);
        let inner = ref_kint_u64_san_nov::sanitize(raw);
        { let r: &u64 = v.as_ref(); assert!((*r) == inner, "as_ref() exposes the stored value"); }
        { let r: &u64 = &*v; assert!((*r) == inner, "deref() exposes the stored value"); }
        { let r: &u64 = ::core::borrow::Borrow::borrow(&v); assert!((*r) == inner, "borrow() exposes the stored value"); }
        { let c = v.clone(); assert!(c.into_inner() == inner, "clone() is an equal value"); }
        { let r: u64 = v.into(); assert!(r == inner, "into() is the stored value"); }

        kani::cover!(true, "reached");
    }
    #[kani::proof]
    fn k_kint_u64_san_nov__comparisons() {
        let ra: u64 = kani::any();
        let rb: u64 = kani::any();
        let a = KintU64SanNov::new(ra);
        let b = KintU64SanNov::new(rb);
        let ia = ref_kint_u64_san_nov::sanitize(ra); let ib = ref_kint_u64_san_nov::sanitize(rb);
        assert!((a == b) == (ia == ib), "== agrees with the inner values");
        assert!((a != b) == (ia != ib), "!= agrees with the inner values");
        assert!(a.partial_cmp(&b) == ia.partial_cmp(&ib), "partial_cmp agrees with the inner values");
        assert!((a < b) == (ia < ib) && (a <= b) == (ia <= ib) && (a > b) == (ia > ib) && (a >= b) == (ia >= ib), "comparison operators agree");
        assert!(a.cmp(&b) == ia.cmp(&ib), "cmp agrees with the inner values");

        kani::cover!(true, "reached");
    }
    #[kani::proof]
    fn k_kint_u64_san_nov__hash() {
        let raw: u64 = kani::any();
        let v = KintU64SanNov::new(raw);
        use ::core::hash::Hash;
        let mut h1 = RecHasher::new(); let mut h2 = RecHasher::new();
        v.hash(&mut h1);
        let b: &u64 = ::core::borrow::Borrow::borrow(&v);
        b.hash(&mut h2);
        assert!(h1.n == h2.n && h1.n < 9 && h1.log == h2.log, "Hash feeds the hasher exactly what the borrowed inner value feeds");

        kani::cover!(true, "reached");
    }
    #[kani::proof]
    fn k_kint_i128_ge_le_sym__views() {
        unsafe { SYM_LO_I128 = kani::any(); }
        unsafe { SYM_HI_I128 = kani::any(); }
        let raw: i128 = kani::any();
        let v_r = KintI128GeLeSym::try_new(raw);
        kani::assume(v_r.is_ok());
        let v = v_r.unwrap();
        let inner = ref_kint_i128_ge_le_sym::sanitize(raw);
        { let r: &i128 = v.as_ref(); assert!((*r) == inner, "as_ref() exposes the stored value"); }
        { let r: &i128 = &*v; assert!((*r) == inner, "deref() exposes the stored value"); }
        { let r: &i128 = ::core::borrow::Borrow::borrow(&v); assert!((*r) == inner, "borrow() exposes the stored value"); }
        { let c = v.clone(); assert!(c.into_inner() == inner, "clone() is an equal value"); }
        { let r: i128 = v.into(); assert!(r == inner, "into() is the stored value"); }

        kani::cover!(true, "reached");
    }
    #[kani::proof]
    fn k_kint_i128_ge_le_sym__comparisons() {
        unsafe { SYM_LO_I128 = kani::any(); }
        unsafe { SYM_HI_I128 = kani::any(); }
        let ra: i128 = kani::any();
        let rb: i128 = kani::any();
        let a_r = KintI128GeLeSym::try_new(ra);
        kani::assume(a_r.is_ok());
        let a = a_r.unwrap();
        let b_r = KintI128GeLeSym::try_new(rb);
        kani::assume(b_r.is_ok());
        let b = b_r.unwrap();
        let ia = ref_kint_i128_ge_le_sym::sanitize(ra); let ib = ref_kint_i128_ge_le_sym::sanitize(rb);
        assert!((a == b) == (ia == ib), "== agrees with the inner values");
        assert!((a != b) == (ia != ib), "!= agrees with the inner values");
        assert!(a.partial_cmp(&b) == ia.partial_cmp(&ib), "partial_cmp agrees with the inner values");
        assert!((a < b) == (ia < ib) && (a <= b) == (ia <= ib) && (a > b) == (ia > ib) && (a >= b) == (ia >= ib), "comparison operators agree");
        assert!(a.cmp(&b) == ia.cmp(&ib), "cmp agrees with the inner values");

        kani::cover!(true, "reached");
    }
    #[kani::proof]
    fn k_kint_i128_ge_le_sym__hash() {
        unsafe { SYM_LO_I128 = kani::any(); }
        unsafe { SYM_HI_I128 = kani::any(); }
        let raw: i128 = kani::any();
        let v_r = KintI128GeLeSym::try_new(raw);
        kani::assume(v_r.is_ok());
        let v = v_r.unwrap();
        use ::core::hash::Hash;
        let mut h1 = RecHasher::new(); let mut h2 = RecHasher::new();
        v.hash(&mut h1);
        let b: &i128 = ::core::borrow::Borrow::borrow(&v);
        b.hash(&mut h2);
        assert!(h1.n == h2.n && h1.n < 9 && h1.log == h2.log, "Hash feeds the hasher exactly what the borrowed inner value feeds");

        kani::cover!(true, "reached");
    }
    #[kani::proof]
    fn k_kint_i128_san_nov__views() {
        let raw: i128 = kani::any();
        let v = KintI128SanNov::new(raw);
        let inner = ref_kint_i128_san_nov::sanitize(raw);
        { let r: &i128 = v.as_ref(); assert!((*r) == inner, "as_ref() exposes the stored value"); }
        { let r: &i128 = &*v; assert!((*r) == inner, "deref() exposes the stored value"); }
        { let r: &i128 = ::core::borrow::Borrow::borrow(&v); assert!((*r) == inner, "borrow() exposes the stored value"); }
        { let c = v.clone(); assert!(c.into_inner() == inner, "clone() is an equal value"); }
        { let r: i128 = v.into(); assert!(r == inner, "into() is the stored value"); }

        kani::cover!(true, "reached");
    }
    #[kani::proof]
    fn k_kint_i128_san_nov__comparisons() {
        let ra: i128 = kani::any();
        let rb: i128 = kani::any();
        let a = KintI128SanNov::new(ra);
        let b = KintI128SanNov::new(rb);
        let ia = ref_kint_i128_san_nov::sanitize(ra); let ib = ref_kint_i128_san_nov::sanitize(rb);
        assert!((a == b) == (ia == ib), "== agrees with the inner values");
        assert!((a != b) == (ia != ib), "!= agrees with the inner values");
        assert!(a.partial_cmp(&b) == ia.partial_cmp(&ib), "partial_cmp agrees with the inner values");
        assert!((a < b) == (ia < ib) && (a <= b) == (ia <= ib) && (a > b) == (ia > ib) && (a >= b) == (ia >= ib), "comparison operators agree");
        assert!(a.cmp(&b) == ia.cmp(&ib), "cmp agrees with the inner values");

        kani::cover!(true, "reached");
    }
    #[kani::proof]
    fn k_kint_i128_san_nov__hash() {
        let raw: i128 = kani::any();
        let v = KintI128SanNov::new(raw);
        use ::core::hash::Hash;
        let mut h1 = RecHasher::new(); let mut h2 = RecHasher::new();
        v.hash(&mut h1);
        let b: &i128 = ::core::borrow::Borrow::borrow(&v);
        b.hash(&mut h2);
        assert!(h1.n == h2.n && h1.n < 9 && h1.log == h2.log, "Hash feeds the hasher exactly what the borrowed inner value feeds");

        kani::cover!(true, "reached");
    }
    #[kani::proof]
    fn k_kint_usize_ge_le_sym__views() {
        unsafe { SYM_LO_USIZE = kani::any(); }
        unsafe { SYM_HI_USIZE = kani::any(); }
        let raw: usize = kani::any();
        let v_r = KintUsizeGeLeSym::try_new(raw);
        kani::assume(v_r.is_ok());
        let v = v_r.unwrap();
        let inner = ref_kint_usize_ge_le_sym::sanitize(raw);
        { let r: &usize = v.as_ref(); assert!((*r) == inner, "as_ref() exposes the stored value"); }
        { let r: &usize = &*v; assert!((*r) == inner, "deref() exposes the stored value"); }
        { let r: &usize = ::core::borrow::Borrow::borrow(&v); assert!((*r) == inner, "borrow() exposes the stored value"); }
        { let c = v.clone(); assert!(c.into_inner() == inner, "clone() is an equal value"); }
        { let r: usize = v.into(); assert!(r == inner, "into() is the stored value"); }

        kani::cover!(true, "reached");
    }
    #[kani::proof]
    fn k_kint_usize_ge_le_sym__comparisons() {
        unsafe { SYM_LO_USIZE = kani::any(); }
        unsafe { SYM_HI_USIZE = kani::any(); }
        let ra: usize = kani::any();
        let rb: usize = kani::any();
        let a_r = KintUsizeGeLeSym::try_new(ra);
        kani::assume(a_r.is_ok());
        let a = a_r.unwrap();
        let b_r = KintUsizeGeLeSym::try_new(rb);
        kani::assume(b_r.is_ok());
        let b = b_r.unwrap();
        let ia = ref_kint_usize_ge_le_sym::sanitize(ra); let ib = ref_kint_usize_ge_le_sym::sanitize(rb);
        assert!((a == b) == (ia == ib), "== agrees with the inner values");
        assert!((a != b) == (ia != ib), "!= agrees with the inner values");
        assert!(a.partial_cmp(&b) == ia.partial_cmp(&ib), "partial_cmp agrees with the inner values");
        assert!((a < b) == (ia < ib) && (a <= b) == (ia <= ib) && (a > b) == (ia > ib) && (a >= b) == (ia >= ib), "comparison operators agree");
        assert!(a.cmp(&b) == ia.cmp(&ib), "cmp agrees with the inner values");

        kani::cover!(true, "reached");
    }
    #[kani::proof]
    fn k_kint_usize_ge_le_sym__hash() {
        unsafe { SYM_LO_USIZE = kani::any(); }
        unsafe { SYM_HI_USIZE = kani::any(); }
        let raw: usize = kani::any();
        let v_r = KintUsizeGeLeSym::try_new(raw);
        kani::assume(v_r.is_ok());
        let v = v_r.unwrap();
        use ::core::hash::Hash;
        let mut h1 = RecHasher::new(); let mut h2 = RecHasher::new();
        v.hash(&mut h1);
        let b: &usize = ::core::borrow::Borrow::borrow(&v);
        b.hash(&mut h2);
        assert!(h1.n == h2.n && h1.n < 9 && h1.log == h2.log, "Hash feeds the hasher exactly what the borrowed inner value feeds");

        kani::cover!(true, "reached");
    }
    #[kani::proof]
    fn k_kint_usize_san_nov__views() {
        let raw: usize = kani::any();
        let v = KintUsizeSanNov::new(raw);
        let inner = ref_kint_usize_san_nov::sanitize(raw);
        { let r: &usize = v.as_ref(); assert!((*r) == inner, "as_ref() exposes the stored value"); }
        { let r: &usize = &*v; assert!((*r) == inner, "deref() exposes the stored value"); }
        { let r: &usize = ::core::borrow::Borrow::borrow(&v); assert!((*r) == inner, "borrow() exposes the stored value"); }
        { let c = v.clone(); assert!(c.into_inner() == inner, "clone() is an equal value"); }
        { let r: usize = v.into(); assert!(r == inner, "into() is the stored value"); }

        kani::cover!(true, "reached");
    }
    #[kani::proof]
    fn k_kint_usize_san_nov__comparisons() {
        let ra: usize = kani::any();
        let rb: usize = kani::any();
        let a = KintUsizeSanNov::new(ra);
        let b = KintUsizeSanNov::new(rb);
        let ia = ref_kint_usize_san_nov::sanitize(ra); let ib = ref_kint_usize_san_nov::sanitize(rb);
        assert!((a == b) == (ia == ib), "== agrees with the inner values");
        assert!((a != b) == (ia != ib), "!= agrees with the inner values");
        assert!(a.partial_cmp(&b) == ia.partial_cmp(&ib), "partial_cmp agrees with the inner values");
        assert!((a < b) == (ia < ib) && (a <= b) == (ia <= ib) && (a > b) == (ia > ib) && (a >= b) == (ia >= ib), "comparison operators agree");
        assert!(a.cmp(&b) == ia.cmp(&ib), "cmp agrees with the inner values");

        kani::cover!(true, "reached");
    }
    #[kani::proof]
    fn k_kint_usize_san_nov__hash() {
        let raw: usize = kani::any();
        let v = KintUsizeSanNov::new(raw);
        use ::core::hash::Hash;
        let mut h1 = RecHasher::new(); let mut h2 = RecHasher::new();
        v.hash(&mut h1);
        let b: &usize = ::core::borrow::Borrow::borrow(&v);
        b.hash(&mut h2);
        assert!(h1.n == h2.n && h1.n < 9 && h1.log == h2.log, "Hash feeds the hasher exactly what the borrowed inner value feeds");

        kani::cover!(true, "reached");
    }
    #[kani::proof]
    #[kani::unwind(12)]
    fn k_disp_probe_nov__Display__fmt_0_____() {
        let p = Probe(kani::any());
        let v = DispProbeNov::new(p);
        unsafe { PROBE_LOG = [0; 8]; }
        let mut w1 = CountWriter { n: 0, acc: 0 };
        let r1 = ::core::fmt::write(&mut w1, format_args!("{}", v));
        let log1 = unsafe { PROBE_LOG };
        unsafe { PROBE_LOG = [0; 8]; }
        let mut w2 = CountWriter { n: 0, acc: 0 };
        let r2 = ::core::fmt::write(&mut w2, format_args!("{}", p));
        let log2 = unsafe { PROBE_LOG };
        assert!(log1[0] == 1 && log2[0] == 1 && log1[1] == log2[1] && log1[2] == log2[2] && log1[3] == log2[3] && log1[4] == log2[4] && log1[5] == log2[5] && log1[6] == log2[6], "Display passes the caller's formatter unchanged to the inner value, once");
        assert!(r1.is_ok() == r2.is_ok() && w1.n == w2.n && w1.acc == w2.acc, "Display writes exactly what the inner value writes");

        kani::cover!(true, "reached");
    }
    #[kani::proof]
    #[kani::unwind(12)]
    fn k_disp_probe_nov__Display__fmt_1_____8__() {
        let p = Probe(kani::any());
        let v = DispProbeNov::new(p);
        unsafe { PROBE_LOG = [0; 8]; }
        let mut w1 = CountWriter { n: 0, acc: 0 };
        let r1 = ::core::fmt::write(&mut w1, format_args!("{:>8}", v));
        let log1 = unsafe { PROBE_LOG };
        unsafe { PROBE_LOG = [0; 8]; }
        let mut w2 = CountWriter { n: 0, acc: 0 };
        let r2 = ::core::fmt::write(&mut w2, format_args!("{:>8}", p));
        let log2 = unsafe { PROBE_LOG };
        assert!(log1[0] == 1 && log2[0] == 1 && log1[1] == log2[1] && log1[2] == log2[2] && log1[3] == log2[3] && log1[4] == log2[4] && log1[5] == log2[5] && log1[6] == log2[6], "Display passes the caller's formatter unchanged to the inner value, once");
        assert!(r1.is_ok() == r2.is_ok() && w1.n == w2.n && w1.acc == w2.acc, "Display writes exactly what the inner value writes");

        kani::cover!(true, "reached");
    }
    #[kani::proof]
    #[kani::unwind(12)]
    fn k_disp_probe_nov__Display__fmt_2_____5__() {
        let p = Probe(kani::any());
        let v = DispProbeNov::new(p);
        unsafe { PROBE_LOG = [0; 8]; }
        let mut w1 = CountWriter { n: 0, acc: 0 };
        let r1 = ::core::fmt::write(&mut w1, format_args!("{:<5}", v));
        let log1 = unsafe { PROBE_LOG };
        unsafe { PROBE_LOG = [0; 8]; }
        let mut w2 = CountWriter { n: 0, acc: 0 };
        let r2 = ::core::fmt::write(&mut w2, format_args!("{:<5}", p));
        let log2 = unsafe { PROBE_LOG };
        assert!(log1[0] == 1 && log2[0] == 1 && log1[1] == log2[1] && log1[2] == log2[2] && log1[3] == log2[3] && log1[4] == log2[4] && log1[5] == log2[5] && log1[6] == log2[6], "Display passes the caller's formatter unchanged to the inner value, once");
        assert!(r1.is_ok() == r2.is_ok() && w1.n == w2.n && w1.acc == w2.acc, "Display writes exactly what the inner value writes");

        kani::cover!(true, "reached");
    }
    #[kani::proof]
    #[kani::unwind(12)]
    fn k_disp_probe_nov__Display__fmt_3_____7__() {
        let p = Probe(kani::any());
        let v = DispProbeNov::new(p);
        unsafe { PROBE_LOG = [0; 8]; }
        let mut w1 = CountWriter { n: 0, acc: 0 };
        let r1 = ::core::fmt::write(&mut w1, format_args!("{:^7}", v));
        let log1 = unsafe { PROBE_LOG };
        unsafe { PROBE_LOG = [0; 8]; }
        let mut w2 = CountWriter { n: 0, acc: 0 };
        let r2 = ::core::fmt::write(&mut w2, format_args!("{:^7}", p));
        let log2 = unsafe { PROBE_LOG };
        assert!(log1[0] == 1 && log2[0] == 1 && log1[1] == log2[1] && log1[2] == log2[2] && log1[3] == log2[3] && log1[4] == log2[4] && log1[5] == log2[5] && log1[6] == log2[6], "Display passes the caller's formatter unchanged to the inner value, once");
        assert!(r1.is_ok() == r2.is_ok() && w1.n == w2.n && w1.acc == w2.acc, "Display writes exactly what the inner value writes");

        kani::cover!(true, "reached");
    }
    #[kani::proof]
    #[kani::unwind(12)]
    fn k_disp_probe_nov__Display__fmt_4_____2__() {
        let p = Probe(kani::any());
        let v = DispProbeNov::new(p);
        unsafe { PROBE_LOG = [0; 8]; }
        let mut w1 = CountWriter { n: 0, acc: 0 };
        let r1 = ::core::fmt::write(&mut w1, format_args!("{:.2}", v));
        let log1 = unsafe { PROBE_LOG };
        unsafe { PROBE_LOG = [0; 8]; }
        let mut w2 = CountWriter { n: 0, acc: 0 };
        let r2 = ::core::fmt::write(&mut w2, format_args!("{:.2}", p));
        let log2 = unsafe { PROBE_LOG };
        assert!(log1[0] == 1 && log2[0] == 1 && log1[1] == log2[1] && log1[2] == log2[2] && log1[3] == log2[3] && log1[4] == log2[4] && log1[5] == log2[5] && log1[6] == log2[6], "Display passes the caller's formatter unchanged to the inner value, once");
        assert!(r1.is_ok() == r2.is_ok() && w1.n == w2.n && w1.acc == w2.acc, "Display writes exactly what the inner value writes");

        kani::cover!(true, "reached");
    }
    #[kani::proof]
    #[kani::unwind(12)]
    fn k_disp_probe_nov__Display__fmt_5_______() {
        let p = Probe(kani::any());
        let v = DispProbeNov::new(p);
        unsafe { PROBE_LOG = [0; 8]; }
        let mut w1 = CountWriter { n: 0, acc: 0 };
        let r1 = ::core::fmt::write(&mut w1, format_args!("{:+}", v));
        let log1 = unsafe { PROBE_LOG };
        unsafe { PROBE_LOG = [0; 8]; }
        let mut w2 = CountWriter { n: 0, acc: 0 };
        let r2 = ::core::fmt::write(&mut w2, format_args!("{:+}", p));
        let log2 = unsafe { PROBE_LOG };
        assert!(log1[0] == 1 && log2[0] == 1 && log1[1] == log2[1] && log1[2] == log2[2] && log1[3] == log2[3] && log1[4] == log2[4] && log1[5] == log2[5] && log1[6] == log2[6], "Display passes the caller's formatter unchanged to the inner value, once");
        assert!(r1.is_ok() == r2.is_ok() && w1.n == w2.n && w1.acc == w2.acc, "Display writes exactly what the inner value writes");

        kani::cover!(true, "reached");
    }
    #[kani::proof]
    #[kani::unwind(12)]
    fn k_disp_probe_nov__Display__fmt_6____08__() {
        let p = Probe(kani::any());
        let v = DispProbeNov::new(p);
        unsafe { PROBE_LOG = [0; 8]; }
        let mut w1 = CountWriter { n: 0, acc: 0 };
        let r1 = ::core::fmt::write(&mut w1, format_args!("{:08}", v));
        let log1 = unsafe { PROBE_LOG };
        unsafe { PROBE_LOG = [0; 8]; }
        let mut w2 = CountWriter { n: 0, acc: 0 };
        let r2 = ::core::fmt::write(&mut w2, format_args!("{:08}", p));
        let log2 = unsafe { PROBE_LOG };
        assert!(log1[0] == 1 && log2[0] == 1 && log1[1] == log2[1] && log1[2] == log2[2] && log1[3] == log2[3] && log1[4] == log2[4] && log1[5] == log2[5] && log1[6] == log2[6], "Display passes the caller's formatter unchanged to the inner value, once");
        assert!(r1.is_ok() == r2.is_ok() && w1.n == w2.n && w1.acc == w2.acc, "Display writes exactly what the inner value writes");

        kani::cover!(true, "reached");
    }
    #[kani::proof]
    #[kani::unwind(12)]
    fn k_disp_probe_nov__Display__fmt_7_______() {
        let p = Probe(kani::any());
        let v = DispProbeNov::new(p);
        unsafe { PROBE_LOG = [0; 8]; }
        let mut w1 = CountWriter { n: 0, acc: 0 };
        let r1 = ::core::fmt::write(&mut w1, format_args!("{:#}", v));
        let log1 = unsafe { PROBE_LOG };
        unsafe { PROBE_LOG = [0; 8]; }
        let mut w2 = CountWriter { n: 0, acc: 0 };
        let r2 = ::core::fmt::write(&mut w2, format_args!("{:#}", p));
        let log2 = unsafe { PROBE_LOG };
        assert!(log1[0] == 1 && log2[0] == 1 && log1[1] == log2[1] && log1[2] == log2[2] && log1[3] == log2[3] && log1[4] == log2[4] && log1[5] == log2[5] && log1[6] == log2[6], "Display passes the caller's formatter unchanged to the inner value, once");
        assert!(r1.is_ok() == r2.is_ok() && w1.n == w2.n && w1.acc == w2.acc, "Display writes exactly what the inner value writes");

        kani::cover!(true, "reached");
    }
    #[kani::proof]
    #[kani::unwind(12)]
    fn k_disp_probe_nov__Display__fmt_8______6_1__() {
        let p = Probe(kani::any());
        let v = DispProbeNov::new(p);
        unsafe { PROBE_LOG = [0; 8]; }
        let mut w1 = CountWriter { n: 0, acc: 0 };
        let r1 = ::core::fmt::write(&mut w1, format_args!("{:*>6.1}", v));
        let log1 = unsafe { PROBE_LOG };
        unsafe { PROBE_LOG = [0; 8]; }
        let mut w2 = CountWriter { n: 0, acc: 0 };
        let r2 = ::core::fmt::write(&mut w2, format_args!("{:*>6.1}", p));
        let log2 = unsafe { PROBE_LOG };
        assert!(log1[0] == 1 && log2[0] == 1 && log1[1] == log2[1] && log1[2] == log2[2] && log1[3] == log2[3] && log1[4] == log2[4] && log1[5] == log2[5] && log1[6] == log2[6], "Display passes the caller's formatter unchanged to the inner value, once");
        assert!(r1.is_ok() == r2.is_ok() && w1.n == w2.n && w1.acc == w2.acc, "Display writes exactly what the inner value writes");

        kani::cover!(true, "reached");
    }
    #[kani::proof]
    #[kani::unwind(12)]
    fn k_disp_probe_nov__Display__fmt_9_______() {
        let p = Probe(kani::any());
        let v = DispProbeNov::new(p);
        unsafe { PROBE_LOG = [0; 8]; }
        let mut w1 = CountWriter { n: 0, acc: 0 };
        let r1 = ::core::fmt::write(&mut w1, format_args!("{:-}", v));
        let log1 = unsafe { PROBE_LOG };
        unsafe { PROBE_LOG = [0; 8]; }
        let mut w2 = CountWriter { n: 0, acc: 0 };
        let r2 = ::core::fmt::write(&mut w2, format_args!("{:-}", p));
        let log2 = unsafe { PROBE_LOG };
        assert!(log1[0] == 1 && log2[0] == 1 && log1[1] == log2[1] && log1[2] == log2[2] && log1[3] == log2[3] && log1[4] == log2[4] && log1[5] == log2[5] && log1[6] == log2[6], "Display passes the caller's formatter unchanged to the inner value, once");
        assert!(r1.is_ok() == r2.is_ok() && w1.n == w2.n && w1.acc == w2.acc, "Display writes exactly what the inner value writes");

        kani::cover!(true, "reached");
    }
    #[kani::proof]
    #[kani::unwind(14)]
    fn k_disp_str_tr__Display__fmt_0_____() {
        let raw: String = String::from(" bob ");
        let v_r = DispStrTr::try_new(raw.clone());
        kani::assume(v_r.is_ok());
        let v = v_r.unwrap();
        let inner: String = ref_disp_str_tr::sanitize(raw);
        let mut w1 = CountWriter { n: 0, acc: 0 };
        let mut w2 = CountWriter { n: 0, acc: 0 };
        let r1 = ::core::fmt::write(&mut w1, format_args!("{}", v));
        let r2 = ::core::fmt::write(&mut w2, format_args!("{}", inner));
        assert!(r1.is_ok() == r2.is_ok() && w1.n == w2.n && w1.acc == w2.acc, "Display writes exactly what the inner value writes (padding, precision, sign, fill included)");

        kani::cover!(true, "reached");
    }
    #[kani::proof]
    #[kani::unwind(14)]
    fn k_disp_str_tr__Display__fmt_1_____8__() {
        let raw: String = String::from(" bob ");
        let v_r = DispStrTr::try_new(raw.clone());
        kani::assume(v_r.is_ok());
        let v = v_r.unwrap();
        let inner: String = ref_disp_str_tr::sanitize(raw);
        let mut w1 = CountWriter { n: 0, acc: 0 };
        let mut w2 = CountWriter { n: 0, acc: 0 };
        let r1 = ::core::fmt::write(&mut w1, format_args!("{:>8}", v));
        let r2 = ::core::fmt::write(&mut w2, format_args!("{:>8}", inner));
        assert!(r1.is_ok() == r2.is_ok() && w1.n == w2.n && w1.acc == w2.acc, "Display writes exactly what the inner value writes (padding, precision, sign, fill included)");

        kani::cover!(true, "reached");
    }
    #[kani::proof]
    #[kani::unwind(14)]
    fn k_disp_str_tr__Display__fmt_2_____2__() {
        let raw: String = String::from(" bob ");
        let v_r = DispStrTr::try_new(raw.clone());
        kani::assume(v_r.is_ok());
        let v = v_r.unwrap();
        let inner: String = ref_disp_str_tr::sanitize(raw);
        let mut w1 = CountWriter { n: 0, acc: 0 };
        let mut w2 = CountWriter { n: 0, acc: 0 };
        let r1 = ::core::fmt::write(&mut w1, format_args!("{:.2}", v));
        let r2 = ::core::fmt::write(&mut w2, format_args!("{:.2}", inner));
        assert!(r1.is_ok() == r2.is_ok() && w1.n == w2.n && w1.acc == w2.acc, "Display writes exactly what the inner value writes (padding, precision, sign, fill included)");

        kani::cover!(true, "reached");
    }
    #[kani::proof]
    #[kani::unwind(14)]
    fn k_disp_str_tr__Display__fmt_3______7__() {
        let raw: String = String::from(" bob ");
        let v_r = DispStrTr::try_new(raw.clone());
        kani::assume(v_r.is_ok());
        let v = v_r.unwrap();
        let inner: String = ref_disp_str_tr::sanitize(raw);
        let mut w1 = CountWriter { n: 0, acc: 0 };
        let mut w2 = CountWriter { n: 0, acc: 0 };
        let r1 = ::core::fmt::write(&mut w1, format_args!("{:*^7}", v));
        let r2 = ::core::fmt::write(&mut w2, format_args!("{:*^7}", inner));
        assert!(r1.is_ok() == r2.is_ok() && w1.n == w2.n && w1.acc == w2.acc, "Display writes exactly what the inner value writes (padding, precision, sign, fill included)");

        kani::cover!(true, "reached");
    }
    #[kani::proof]
    #[kani::unwind(14)]
    fn k_disp_str_tr__Display__fmt_4_____6_1__() {
        let raw: String = String::from(" bob ");
        let v_r = DispStrTr::try_new(raw.clone());
        kani::assume(v_r.is_ok());
        let v = v_r.unwrap();
        let inner: String = ref_disp_str_tr::sanitize(raw);
        let mut w1 = CountWriter { n: 0, acc: 0 };
        let mut w2 = CountWriter { n: 0, acc: 0 };
        let r1 = ::core::fmt::write(&mut w1, format_args!("{:<6.1}", v));
        let r2 = ::core::fmt::write(&mut w2, format_args!("{:<6.1}", inner));
        assert!(r1.is_ok() == r2.is_ok() && w1.n == w2.n && w1.acc == w2.acc, "Display writes exactly what the inner value writes (padding, precision, sign, fill included)");

        kani::cover!(true, "reached");
    }
    #[kani::proof]
    #[kani::unwind(14)]
    fn k_disp_i32_le__Display__fmt_0_____() {
        let raw: i32 = (-42 as i32);
        let v_r = DispI32Le::try_new(raw.clone());
        kani::assume(v_r.is_ok());
        let v = v_r.unwrap();
        let inner: i32 = ref_disp_i32_le::sanitize(raw);
        let mut w1 = CountWriter { n: 0, acc: 0 };
        let mut w2 = CountWriter { n: 0, acc: 0 };
        let r1 = ::core::fmt::write(&mut w1, format_args!("{}", v));
        let r2 = ::core::fmt::write(&mut w2, format_args!("{}", inner));
        assert!(r1.is_ok() == r2.is_ok() && w1.n == w2.n && w1.acc == w2.acc, "Display writes exactly what the inner value writes (padding, precision, sign, fill included)");

        kani::cover!(true, "reached");
    }
    #[kani::proof]
    #[kani::unwind(14)]
    fn k_disp_i32_le__Display__fmt_1_____8__() {
        let raw: i32 = (-42 as i32);
        let v_r = DispI32Le::try_new(raw.clone());
        kani::assume(v_r.is_ok());
        let v = v_r.unwrap();
        let inner: i32 = ref_disp_i32_le::sanitize(raw);
        let mut w1 = CountWriter { n: 0, acc: 0 };
        let mut w2 = CountWriter { n: 0, acc: 0 };
        let r1 = ::core::fmt::write(&mut w1, format_args!("{:>8}", v));
        let r2 = ::core::fmt::write(&mut w2, format_args!("{:>8}", inner));
        assert!(r1.is_ok() == r2.is_ok() && w1.n == w2.n && w1.acc == w2.acc, "Display writes exactly what the inner value writes (padding, precision, sign, fill included)");

        kani::cover!(true, "reached");
    }
    #[kani::proof]
    #[kani::unwind(14)]
    fn k_disp_i32_le__Display__fmt_2_______() {
        let raw: i32 = (-42 as i32);
        let v_r = DispI32Le::try_new(raw.clone());
        kani::assume(v_r.is_ok());
        let v = v_r.unwrap();
        let inner: i32 = ref_disp_i32_le::sanitize(raw);
        let mut w1 = CountWriter { n: 0, acc: 0 };
        let mut w2 = CountWriter { n: 0, acc: 0 };
        let r1 = ::core::fmt::write(&mut w1, format_args!("{:+}", v));
        let r2 = ::core::fmt::write(&mut w2, format_args!("{:+}", inner));
        assert!(r1.is_ok() == r2.is_ok() && w1.n == w2.n && w1.acc == w2.acc, "Display writes exactly what the inner value writes (padding, precision, sign, fill included)");

        kani::cover!(true, "reached");
    }
    #[kani::proof]
    #[kani::unwind(14)]
    fn k_disp_i32_le__Display__fmt_3____08__() {
        let raw: i32 = (-42 as i32);
        let v_r = DispI32Le::try_new(raw.clone());
        kani::assume(v_r.is_ok());
        let v = v_r.unwrap();
        let inner: i32 = ref_disp_i32_le::sanitize(raw);
        let mut w1 = CountWriter { n: 0, acc: 0 };
        let mut w2 = CountWriter { n: 0, acc: 0 };
        let r1 = ::core::fmt::write(&mut w1, format_args!("{:08}", v));
        let r2 = ::core::fmt::write(&mut w2, format_args!("{:08}", inner));
        assert!(r1.is_ok() == r2.is_ok() && w1.n == w2.n && w1.acc == w2.acc, "Display writes exactly what the inner value writes (padding, precision, sign, fill included)");

        kani::cover!(true, "reached");
    }
    #[kani::proof]
    #[kani::unwind(14)]
    fn k_disp_i32_le__Display__fmt_4_____5__() {
        let raw: i32 = (-42 as i32);
        let v_r = DispI32Le::try_new(raw.clone());
        kani::assume(v_r.is_ok());
        let v = v_r.unwrap();
        let inner: i32 = ref_disp_i32_le::sanitize(raw);
        let mut w1 = CountWriter { n: 0, acc: 0 };
        let mut w2 = CountWriter { n: 0, acc: 0 };
        let r1 = ::core::fmt::write(&mut w1, format_args!("{:<5}", v));
        let r2 = ::core::fmt::write(&mut w2, format_args!("{:<5}", inner));
        assert!(r1.is_ok() == r2.is_ok() && w1.n == w2.n && w1.acc == w2.acc, "Display writes exactly what the inner value writes (padding, precision, sign, fill included)");

        kani::cover!(true, "reached");
    }
    #[kani::proof]
    #[kani::unwind(5)]
    fn k_iter_arr_nov__IntoIterator__into_iter__by_value_and_by_reference_() {
        let raw: [i32; 3] = kani::any();
        let v = IterArrNov::new(raw);
        let inner = ref_iter_arr_nov::sanitize(raw);
        { let mut n = 0usize; for x in &v { assert!(n < 3 && *x == inner[n], "by-reference iteration yields exactly the stored elements, in order"); n += 1; } assert!(n == 3, "by-reference iteration yields every element"); }
        { let mut n = 0usize; for x in v { assert!(n < 3 && x == inner[n], "by-value iteration yields exactly the stored elements, in order"); n += 1; } assert!(n == 3, "by-value iteration yields every element"); }

        kani::cover!(true, "reached");
    }
    #[kani::proof]
    #[kani::unwind(5)]
    fn k_iter_arr_san_pred__IntoIterator__into_iter__by_value_and_by_reference_() {
        let raw: [i32; 3] = kani::any();
        let v_r = IterArrSanPred::try_new(raw);
        kani::assume(v_r.is_ok());
        let v = v_r.unwrap();
        let inner = ref_iter_arr_san_pred::sanitize(raw);
        { let mut n = 0usize; for x in &v { assert!(n < 3 && *x == inner[n], "by-reference iteration yields exactly the stored elements, in order"); n += 1; } assert!(n == 3, "by-reference iteration yields every element"); }
        { let mut n = 0usize; for x in v { assert!(n < 3 && x == inner[n], "by-value iteration yields exactly the stored elements, in order"); n += 1; } assert!(n == 3, "by-value iteration yields every element"); }

        kani::cover!(true, "reached");
    }
    #[kani::proof]
    #[kani::unwind(12)]
    fn k_strv_tr_ne__String_Hash_Borrow_Ord____b_____a__() {
        let x_r = StrvTrNe::try_new(String::from(" b "));
        kani::assume(x_r.is_ok());
        let x = x_r.unwrap();
        let y_r = StrvTrNe::try_new(String::from("a"));
        kani::assume(y_r.is_ok());
        let y = y_r.unwrap();
        use ::core::hash::Hash;
        let sx = ref_strv_tr_ne::sanitize(String::from(" b ")); let sy = ref_strv_tr_ne::sanitize(String::from("a"));
        let mut h1 = RecHasher::new(); let mut h2 = RecHasher::new(); let mut h3 = RecHasher::new();
        x.hash(&mut h1);
        { let s: &str = ::core::borrow::Borrow::borrow(&x); s.hash(&mut h2); assert!(s == sx.as_str(), "Borrow<str> exposes the stored value"); }
        { let s: &String = ::core::borrow::Borrow::borrow(&x); s.hash(&mut h3); assert!(s == &sx, "Borrow<String> exposes the stored value"); }
        assert!(h1.n == h2.n && h1.n < 9 && h1.n == h3.n, "Hash feeds the hasher as the borrowed forms do");
        let mut i = 0; while i < h1.n && i < 8 { assert!(h1.log[i] == h2.log[i] && h1.log[i] == h3.log[i], "Hash feeds the hasher exactly what the borrowed str/String feed"); i += 1; }
        assert!((x == y) == (sx == sy) && x.partial_cmp(&y) == sx.partial_cmp(&sy) && x.cmp(&y) == sx.cmp(&sy), "comparisons agree with the inner strings");
        assert!(x.clone() == x, "clone is equal");

        kani::cover!(true, "reached");
    }
    #[kani::proof]
    #[kani::unwind(12)]
    fn k_strv_tr_ne__String_Hash_Borrow_Ord___ab_____ab__() {
        let x_r = StrvTrNe::try_new(String::from("ab"));
        kani::assume(x_r.is_ok());
        let x = x_r.unwrap();
        let y_r = StrvTrNe::try_new(String::from(" ab"));
        kani::assume(y_r.is_ok());
        let y = y_r.unwrap();
        use ::core::hash::Hash;
        let sx = ref_strv_tr_ne::sanitize(String::from("ab")); let sy = ref_strv_tr_ne::sanitize(String::from(" ab"));
        let mut h1 = RecHasher::new(); let mut h2 = RecHasher::new(); let mut h3 = RecHasher::new();
        x.hash(&mut h1);
        { let s: &str = ::core::borrow::Borrow::borrow(&x); s.hash(&mut h2); assert!(s == sx.as_str(), "Borrow<str> exposes the stored value"); }
        { let s: &String = ::core::borrow::Borrow::borrow(&x); s.hash(&mut h3); assert!(s == &sx, "Borrow<String> exposes the stored value"); }
        assert!(h1.n == h2.n && h1.n < 9 && h1.n == h3.n, "Hash feeds the hasher as the borrowed forms do");
        let mut i = 0; while i < h1.n && i < 8 { assert!(h1.log[i] == h2.log[i] && h1.log[i] == h3.log[i], "Hash feeds the hasher exactly what the borrowed str/String feed"); i += 1; }
        assert!((x == y) == (sx == sy) && x.partial_cmp(&y) == sx.partial_cmp(&sy) && x.cmp(&y) == sx.cmp(&sy), "comparisons agree with the inner strings");
        assert!(x.clone() == x, "clone is equal");

        kani::cover!(true, "reached");
    }
}
