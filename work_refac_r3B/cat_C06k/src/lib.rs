#![allow(dead_code, unused_imports, unused_variables, unused_mut, non_snake_case, non_upper_case_globals, clippy::all)]
use nutype::nutype;
#[derive(Debug, Clone, Copy, PartialEq, Eq)]
pub enum MyErr { Bad, Worse }
impl ::core::fmt::Display for MyErr { fn fmt(&self, f: &mut ::core::fmt::Formatter<'_>) -> ::core::fmt::Result { write!(f, "my err") } }
impl ::core::error::Error for MyErr {}
#[derive(Debug, Clone, Copy, PartialEq, Eq, PartialOrd, Ord, Hash, Default)]
pub struct Point { pub x: i32, pub y: i32 }
pub trait Sat: Sized { fn sat(self) -> Self; fn ok(&self) -> bool; }
impl Sat for i32 { fn sat(self) -> i32 { if self > 50 { 50 } else { self } } fn ok(&self) -> bool { *self != 7 } }
pub fn san_gen<T: Sat>(x: T) -> T { x.sat() }
pub fn pred_gen<T: Sat>(x: &T) -> bool { x.ok() }
pub fn vfn_gen<T: Sat>(x: &T) -> Result<(), MyErr> { if x.ok() { Ok(()) } else { Err(MyErr::Worse) } }
impl ::core::str::FromStr for Point { type Err = MyErr; fn from_str(s: &str) -> Result<Self, MyErr> { let mut it = s.split(','); let x = it.next().and_then(|v| v.trim().parse().ok()).ok_or(MyErr::Bad)?; let y = it.next().and_then(|v| v.trim().parse().ok()).ok_or(MyErr::Worse)?; Ok(Point { x, y }) } }
pub fn sym_lo_i32() -> i32 { 3 }
pub fn sym_hi_i32() -> i32 { 100 }
pub const fn san_i32(x: i32) -> i32 { if x > 50 { 50 } else { x } }
pub fn vfn_i32(x: &i32) -> Result<(), MyErr> { if *x != 7 { Ok(()) } else { Err(MyErr::Bad) } }
pub fn san3_i32(x: i32) -> i32 { x / (2 as i32) + (10 as i32) }
pub fn sym_lo_u8() -> u8 { 3 }
pub fn sym_hi_u8() -> u8 { 100 }
pub const fn san_u8(x: u8) -> u8 { if x > 50 { 50 } else { x } }
pub fn vfn_u8(x: &u8) -> Result<(), MyErr> { if *x != 7 { Ok(()) } else { Err(MyErr::Bad) } }
pub fn san3_u8(x: u8) -> u8 { x / (2 as u8) + (10 as u8) }
pub fn sym_lo_i128() -> i128 { 3 }
pub fn sym_hi_i128() -> i128 { 100 }
pub const fn san_i128(x: i128) -> i128 { if x > 50 { 50 } else { x } }
pub fn vfn_i128(x: &i128) -> Result<(), MyErr> { if *x != 7 { Ok(()) } else { Err(MyErr::Bad) } }
pub fn san3_i128(x: i128) -> i128 { x / (2 as i128) + (10 as i128) }
pub fn sym_lo_usize() -> usize { 3 }
pub fn sym_hi_usize() -> usize { 100 }
pub const fn san_usize(x: usize) -> usize { if x > 50 { 50 } else { x } }
pub fn vfn_usize(x: &usize) -> Result<(), MyErr> { if *x != 7 { Ok(()) } else { Err(MyErr::Bad) } }
pub fn san3_usize(x: usize) -> usize { x / (2 as usize) + (10 as usize) }
pub fn sym_lo_f32() -> f32 { 3.0 }
pub fn sym_hi_f32() -> f32 { 100.0 }
pub const fn san_f32(x: f32) -> f32 { if x < 0.0 { -x } else { x } }
pub fn vfn_f32(x: &f32) -> Result<(), MyErr> { if *x != 7.0 { Ok(()) } else { Err(MyErr::Bad) } }
pub fn san3_f32(x: f32) -> f32 { x / (2 as f32) + (10 as f32) }
pub fn sym_lo_f64() -> f64 { 3.0 }
pub fn sym_hi_f64() -> f64 { 100.0 }
pub const fn san_f64(x: f64) -> f64 { if x < 0.0 { -x } else { x } }
pub fn vfn_f64(x: &f64) -> Result<(), MyErr> { if *x != 7.0 { Ok(()) } else { Err(MyErr::Bad) } }
pub fn san3_f64(x: f64) -> f64 { x / (2 as f64) + (10 as f64) }
pub fn pred_point(p: &Point) -> bool { p.x <= p.y }
pub fn san_point(p: Point) -> Point { Point { x: p.x.clamp(0, 100), y: p.y.clamp(0, 100) } }

pub mod d_fs_i32_nov {
    use super::*;
    #[nutype(derive(Debug, FromStr))]
    pub struct FsI32Nov(i32);
}
pub mod d_fs_i32_val {
    use super::*;
    #[nutype(validate(greater_or_equal = sym_lo_i32(), less = sym_hi_i32()), derive(Debug, FromStr))]
    pub struct FsI32Val(i32);
}
pub mod d_fs_i32_san_val {
    use super::*;
    #[nutype(sanitize(with = san_i32), validate(greater_or_equal = sym_lo_i32(), less = sym_hi_i32()), derive(Debug, FromStr))]
    pub struct FsI32SanVal(i32);
}
pub mod d_fs_i32_san_nov {
    use super::*;
    #[nutype(sanitize(with = san_i32), derive(Debug, FromStr))]
    pub struct FsI32SanNov(i32);
}
pub mod d_fs_i32_custom {
    use super::*;
    #[nutype(validate(with = vfn_i32, error = MyErr), derive(Debug, FromStr))]
    pub struct FsI32Custom(i32);
}
pub mod d_fs_i32_san3_val {
    use super::*;
    #[nutype(sanitize(with = san3_i32), validate(greater_or_equal = sym_lo_i32(), less = sym_hi_i32()), derive(Debug, FromStr))]
    pub struct FsI32San3Val(i32);
}
pub mod d_fs_i32_san3_nov {
    use super::*;
    #[nutype(sanitize(with = san3_i32), derive(Debug, FromStr))]
    pub struct FsI32San3Nov(i32);
}
pub mod d_fs_u8_nov {
    use super::*;
    #[nutype(derive(Debug, FromStr))]
    pub struct FsU8Nov(u8);
}
pub mod d_fs_u8_val {
    use super::*;
    #[nutype(validate(greater_or_equal = sym_lo_u8(), less = sym_hi_u8()), derive(Debug, FromStr))]
    pub struct FsU8Val(u8);
}
pub mod d_fs_u8_san_val {
    use super::*;
    #[nutype(sanitize(with = san_u8), validate(greater_or_equal = sym_lo_u8(), less = sym_hi_u8()), derive(Debug, FromStr))]
    pub struct FsU8SanVal(u8);
}
pub mod d_fs_u8_san_nov {
    use super::*;
    #[nutype(sanitize(with = san_u8), derive(Debug, FromStr))]
    pub struct FsU8SanNov(u8);
}
pub mod d_fs_u8_custom {
    use super::*;
    #[nutype(validate(with = vfn_u8, error = MyErr), derive(Debug, FromStr))]
    pub struct FsU8Custom(u8);
}
pub mod d_fs_u8_san3_val {
    use super::*;
    #[nutype(sanitize(with = san3_u8), validate(greater_or_equal = sym_lo_u8(), less = sym_hi_u8()), derive(Debug, FromStr))]
    pub struct FsU8San3Val(u8);
}
pub mod d_fs_u8_san3_nov {
    use super::*;
    #[nutype(sanitize(with = san3_u8), derive(Debug, FromStr))]
    pub struct FsU8San3Nov(u8);
}
pub mod d_fs_i128_nov {
    use super::*;
    #[nutype(derive(Debug, FromStr))]
    pub struct FsI128Nov(i128);
}
pub mod d_fs_i128_val {
    use super::*;
    #[nutype(validate(greater_or_equal = sym_lo_i128(), less = sym_hi_i128()), derive(Debug, FromStr))]
    pub struct FsI128Val(i128);
}
pub mod d_fs_i128_san_val {
    use super::*;
    #[nutype(sanitize(with = san_i128), validate(greater_or_equal = sym_lo_i128(), less = sym_hi_i128()), derive(Debug, FromStr))]
    pub struct FsI128SanVal(i128);
}
pub mod d_fs_i128_san_nov {
    use super::*;
    #[nutype(sanitize(with = san_i128), derive(Debug, FromStr))]
    pub struct FsI128SanNov(i128);
}
pub mod d_fs_i128_custom {
    use super::*;
    #[nutype(validate(with = vfn_i128, error = MyErr), derive(Debug, FromStr))]
    pub struct FsI128Custom(i128);
}
pub mod d_fs_i128_san3_val {
    use super::*;
    #[nutype(sanitize(with = san3_i128), validate(greater_or_equal = sym_lo_i128(), less = sym_hi_i128()), derive(Debug, FromStr))]
    pub struct FsI128San3Val(i128);
}
pub mod d_fs_i128_san3_nov {
    use super::*;
    #[nutype(sanitize(with = san3_i128), derive(Debug, FromStr))]
    pub struct FsI128San3Nov(i128);
}
pub mod d_fs_usize_nov {
    use super::*;
    #[nutype(derive(Debug, FromStr))]
    pub struct FsUsizeNov(usize);
}
pub mod d_fs_usize_val {
    use super::*;
    #[nutype(validate(greater_or_equal = sym_lo_usize(), less = sym_hi_usize()), derive(Debug, FromStr))]
    pub struct FsUsizeVal(usize);
}
pub mod d_fs_usize_san_val {
    use super::*;
    #[nutype(sanitize(with = san_usize), validate(greater_or_equal = sym_lo_usize(), less = sym_hi_usize()), derive(Debug, FromStr))]
    pub struct FsUsizeSanVal(usize);
}
pub mod d_fs_usize_san_nov {
    use super::*;
    #[nutype(sanitize(with = san_usize), derive(Debug, FromStr))]
    pub struct FsUsizeSanNov(usize);
}
pub mod d_fs_usize_custom {
    use super::*;
    #[nutype(validate(with = vfn_usize, error = MyErr), derive(Debug, FromStr))]
    pub struct FsUsizeCustom(usize);
}
pub mod d_fs_usize_san3_val {
    use super::*;
    #[nutype(sanitize(with = san3_usize), validate(greater_or_equal = sym_lo_usize(), less = sym_hi_usize()), derive(Debug, FromStr))]
    pub struct FsUsizeSan3Val(usize);
}
pub mod d_fs_usize_san3_nov {
    use super::*;
    #[nutype(sanitize(with = san3_usize), derive(Debug, FromStr))]
    pub struct FsUsizeSan3Nov(usize);
}
pub mod d_fs_f32_nov {
    use super::*;
    #[nutype(derive(Debug, FromStr))]
    pub struct FsF32Nov(f32);
}
pub mod d_fs_f32_val {
    use super::*;
    #[nutype(validate(finite, greater_or_equal = sym_lo_f32(), less = sym_hi_f32()), derive(Debug, FromStr))]
    pub struct FsF32Val(f32);
}
pub mod d_fs_f32_san_val {
    use super::*;
    #[nutype(sanitize(with = san_f32), validate(finite, greater_or_equal = sym_lo_f32(), less = sym_hi_f32()), derive(Debug, FromStr))]
    pub struct FsF32SanVal(f32);
}
pub mod d_fs_f32_san_nov {
    use super::*;
    #[nutype(sanitize(with = san_f32), derive(Debug, FromStr))]
    pub struct FsF32SanNov(f32);
}
pub mod d_fs_f32_custom {
    use super::*;
    #[nutype(validate(with = vfn_f32, error = MyErr), derive(Debug, FromStr))]
    pub struct FsF32Custom(f32);
}
pub mod d_fs_f32_san3_val {
    use super::*;
    #[nutype(sanitize(with = san3_f32), validate(finite, greater_or_equal = sym_lo_f32(), less = sym_hi_f32()), derive(Debug, FromStr))]
    pub struct FsF32San3Val(f32);
}
pub mod d_fs_f32_san3_nov {
    use super::*;
    #[nutype(sanitize(with = san3_f32), derive(Debug, FromStr))]
    pub struct FsF32San3Nov(f32);
}
pub mod d_fs_f64_nov {
    use super::*;
    #[nutype(derive(Debug, FromStr))]
    pub struct FsF64Nov(f64);
}
pub mod d_fs_f64_val {
    use super::*;
    #[nutype(validate(finite, greater_or_equal = sym_lo_f64(), less = sym_hi_f64()), derive(Debug, FromStr))]
    pub struct FsF64Val(f64);
}
pub mod d_fs_f64_san_val {
    use super::*;
    #[nutype(sanitize(with = san_f64), validate(finite, greater_or_equal = sym_lo_f64(), less = sym_hi_f64()), derive(Debug, FromStr))]
    pub struct FsF64SanVal(f64);
}
pub mod d_fs_f64_san_nov {
    use super::*;
    #[nutype(sanitize(with = san_f64), derive(Debug, FromStr))]
    pub struct FsF64SanNov(f64);
}
pub mod d_fs_f64_custom {
    use super::*;
    #[nutype(validate(with = vfn_f64, error = MyErr), derive(Debug, FromStr))]
    pub struct FsF64Custom(f64);
}
pub mod d_fs_f64_san3_val {
    use super::*;
    #[nutype(sanitize(with = san3_f64), validate(finite, greater_or_equal = sym_lo_f64(), less = sym_hi_f64()), derive(Debug, FromStr))]
    pub struct FsF64San3Val(f64);
}
pub mod d_fs_f64_san3_nov {
    use super::*;
    #[nutype(sanitize(with = san3_f64), derive(Debug, FromStr))]
    pub struct FsF64San3Nov(f64);
}
pub mod d_fs_point_nov {
    use super::*;
    #[nutype(derive(Debug, FromStr))]
    pub struct FsPointNov(Point);
}
pub mod d_fs_point_san_pred {
    use super::*;
    #[nutype(sanitize(with = san_point), validate(predicate = pred_point), derive(Debug, FromStr))]
    pub struct FsPointSanPred(Point);
}
pub mod d_fs_point_san_nov {
    use super::*;
    #[nutype(sanitize(with = san_point), derive(Debug, FromStr))]
    pub struct FsPointSanNov(Point);
}
pub mod d_fs_gen_nov {
    use super::*;
    #[nutype(derive(Debug, FromStr))]
    pub struct FsGenNov<T: Sat>(T);
}
pub mod d_fs_gen_san_nov {
    use super::*;
    #[nutype(sanitize(with = san_gen), derive(Debug, FromStr))]
    pub struct FsGenSanNov<T: Sat>(T);
}
pub mod d_fs_gen_san_pred {
    use super::*;
    #[nutype(sanitize(with = san_gen), validate(predicate = pred_gen), derive(Debug, FromStr))]
    pub struct FsGenSanPred<T: Sat>(T);
}
pub mod d_fs_gen_custom {
    use super::*;
    #[nutype(validate(with = vfn_gen, error = MyErr), derive(Debug, FromStr))]
    pub struct FsGenCustom<T: Sat>(T);
}
