#![allow(dead_code, unused_imports, unused_variables, unused_mut, static_mut_refs, non_snake_case, non_upper_case_globals, unused_unsafe, overflowing_literals, clippy::all)]
use nutype::nutype;
#[derive(Debug, Clone, Copy, PartialEq, Eq)]
pub enum MyErr { Bad, Worse }
impl ::core::fmt::Display for MyErr { fn fmt(&self, f: &mut ::core::fmt::Formatter<'_>) -> ::core::fmt::Result { write!(f, "my err") } }
impl ::core::error::Error for MyErr {}
#[derive(Debug, Clone, Copy, PartialEq, Eq, PartialOrd, Ord, Hash, Default)]
pub struct Point { pub x: i32, pub y: i32 }
pub trait Sat: Sized { fn sat(self) -> Self; fn ok(&self) -> bool; }
impl Sat for i32 { fn sat(self) -> i32 { if self > 50 { 50 } else { self } } fn ok(&self) -> bool { *self != 7 } }
pub fn san_gen<T: Sat>(x: T) -> T { x.sat() }
pub fn pred_gen<T: Sat>(x: &T) -> bool { x.ok() }
pub fn vfn_gen<T: Sat>(x: &T) -> Result<(), MyErr> { if x.ok() { Ok(()) } else { Err(MyErr::Worse) } }
pub static mut PT_PARSE_OK: bool = true;
pub static mut PT_PARSE_VAL: Point = Point { x: 0, y: 0 };
pub static mut PT_PARSE_ERR: MyErr = MyErr::Bad;
pub static mut PT_CALLS: usize = 0;
pub static mut PT_PTR: usize = 0;
pub static mut PT_LEN: usize = 0;
impl ::core::str::FromStr for Point { type Err = MyErr; fn from_str(s: &str) -> Result<Self, MyErr> { unsafe { PT_CALLS += 1; PT_PTR = s.as_ptr() as usize; PT_LEN = s.len(); if PT_PARSE_OK { Ok(PT_PARSE_VAL) } else { Err(PT_PARSE_ERR) } } } }
pub static mut SYM_LO_I32: i32 = 3;
pub fn sym_lo_i32() -> i32 { unsafe { SYM_LO_I32 } }
pub static mut SYM_HI_I32: i32 = 100;
pub fn sym_hi_i32() -> i32 { unsafe { SYM_HI_I32 } }
pub const fn san_i32(x: i32) -> i32 { if x > 50 { 50 } else { x } }
pub fn vfn_i32(x: &i32) -> Result<(), MyErr> { if *x != 7 { Ok(()) } else { Err(MyErr::Bad) } }
pub fn san3_i32(x: i32) -> i32 { x / (2 as i32) + (10 as i32) }
pub static mut SYM_LO_U8: u8 = 3;
pub fn sym_lo_u8() -> u8 { unsafe { SYM_LO_U8 } }
pub static mut SYM_HI_U8: u8 = 100;
pub fn sym_hi_u8() -> u8 { unsafe { SYM_HI_U8 } }
pub const fn san_u8(x: u8) -> u8 { if x > 50 { 50 } else { x } }
pub fn vfn_u8(x: &u8) -> Result<(), MyErr> { if *x != 7 { Ok(()) } else { Err(MyErr::Bad) } }
pub fn san3_u8(x: u8) -> u8 { x / (2 as u8) + (10 as u8) }
pub static mut SYM_LO_I128: i128 = 3;
pub fn sym_lo_i128() -> i128 { unsafe { SYM_LO_I128 } }
pub static mut SYM_HI_I128: i128 = 100;
pub fn sym_hi_i128() -> i128 { unsafe { SYM_HI_I128 } }
pub const fn san_i128(x: i128) -> i128 { if x > 50 { 50 } else { x } }
pub fn vfn_i128(x: &i128) -> Result<(), MyErr> { if *x != 7 { Ok(()) } else { Err(MyErr::Bad) } }
pub fn san3_i128(x: i128) -> i128 { x / (2 as i128) + (10 as i128) }
pub static mut SYM_LO_USIZE: usize = 3;
pub fn sym_lo_usize() -> usize { unsafe { SYM_LO_USIZE } }
pub static mut SYM_HI_USIZE: usize = 100;
pub fn sym_hi_usize() -> usize { unsafe { SYM_HI_USIZE } }
pub const fn san_usize(x: usize) -> usize { if x > 50 { 50 } else { x } }
pub fn vfn_usize(x: &usize) -> Result<(), MyErr> { if *x != 7 { Ok(()) } else { Err(MyErr::Bad) } }
pub fn san3_usize(x: usize) -> usize { x / (2 as usize) + (10 as usize) }
pub static mut SYM_LO_F32: f32 = 3.0;
pub fn sym_lo_f32() -> f32 { unsafe { SYM_LO_F32 } }
pub static mut SYM_HI_F32: f32 = 100.0;
pub fn sym_hi_f32() -> f32 { unsafe { SYM_HI_F32 } }
pub const fn san_f32(x: f32) -> f32 { if x < 0.0 { -x } else { x } }
pub fn vfn_f32(x: &f32) -> Result<(), MyErr> { if *x != 7.0 { Ok(()) } else { Err(MyErr::Bad) } }
pub fn san3_f32(x: f32) -> f32 { x / (2 as f32) + (10 as f32) }
pub static mut SYM_LO_F64: f64 = 3.0;
pub fn sym_lo_f64() -> f64 { unsafe { SYM_LO_F64 } }
pub static mut SYM_HI_F64: f64 = 100.0;
pub fn sym_hi_f64() -> f64 { unsafe { SYM_HI_F64 } }
pub const fn san_f64(x: f64) -> f64 { if x < 0.0 { -x } else { x } }
pub fn vfn_f64(x: &f64) -> Result<(), MyErr> { if *x != 7.0 { Ok(()) } else { Err(MyErr::Bad) } }
pub fn san3_f64(x: f64) -> f64 { x / (2 as f64) + (10 as f64) }
pub fn pred_point(p: &Point) -> bool { p.x <= p.y }
pub fn san_point(p: Point) -> Point { Point { x: p.x.clamp(0, 100), y: p.y.clamp(0, 100) } }

pub mod d_fs_i32_nov {
    use super::*;
    #[nutype(derive(Debug, FromStr))]
    pub struct FsI32Nov(i32);
}
pub use d_fs_i32_nov::*;
pub mod ref_fs_i32_nov {
    #![allow(unused_imports, unused_variables, clippy::all)]
    use super::*;
    use super::d_fs_i32_nov::*;
    pub type Inner = i32;
    pub fn sanitize(x: Inner) -> Inner { x }
    pub fn valid(x: &Inner) -> bool { true }
}
pub mod d_fs_i32_val {
    use super::*;
    #[nutype(validate(greater_or_equal = sym_lo_i32(), less = sym_hi_i32()), derive(Debug, FromStr))]
    pub struct FsI32Val(i32);
}
pub use d_fs_i32_val::*;
pub mod ref_fs_i32_val {
    #![allow(unused_imports, unused_variables, clippy::all)]
    use super::*;
    use super::d_fs_i32_val::*;
    pub type Inner = i32;
    pub fn sanitize(x: Inner) -> Inner { x }
    pub type Error = FsI32ValError;
    pub fn validate(x: &Inner) -> Result<(), Error> { let v = *x; if !(v >= (sym_lo_i32())) { return Err(FsI32ValError::GreaterOrEqualViolated); } if !(v < (sym_hi_i32())) { return Err(FsI32ValError::LessViolated); } Ok(()) }
    pub fn try_new(raw: Inner) -> Result<Inner, Error> { let s = sanitize(raw); validate(&s)?; Ok(s) }
    pub fn valid(x: &Inner) -> bool { validate(x).is_ok() }
}
pub mod d_fs_i32_san_val {
    use super::*;
    #[nutype(sanitize(with = san_i32), validate(greater_or_equal = sym_lo_i32(), less = sym_hi_i32()), derive(Debug, FromStr))]
    pub struct FsI32SanVal(i32);
}
pub use d_fs_i32_san_val::*;
pub mod ref_fs_i32_san_val {
    #![allow(unused_imports, unused_variables, clippy::all)]
    use super::*;
    use super::d_fs_i32_san_val::*;
    pub type Inner = i32;
    pub fn sanitize(x: Inner) -> Inner { san_i32(x) }
    pub type Error = FsI32SanValError;
    pub fn validate(x: &Inner) -> Result<(), Error> { let v = *x; if !(v >= (sym_lo_i32())) { return Err(FsI32SanValError::GreaterOrEqualViolated); } if !(v < (sym_hi_i32())) { return Err(FsI32SanValError::LessViolated); } Ok(()) }
    pub fn try_new(raw: Inner) -> Result<Inner, Error> { let s = sanitize(raw); validate(&s)?; Ok(s) }
    pub fn valid(x: &Inner) -> bool { validate(x).is_ok() }
}
pub mod d_fs_i32_san_nov {
    use super::*;
    #[nutype(sanitize(with = san_i32), derive(Debug, FromStr))]
    pub struct FsI32SanNov(i32);
}
pub use d_fs_i32_san_nov::*;
pub mod ref_fs_i32_san_nov {
    #![allow(unused_imports, unused_variables, clippy::all)]
    use super::*;
    use super::d_fs_i32_san_nov::*;
    pub type Inner = i32;
    pub fn sanitize(x: Inner) -> Inner { san_i32(x) }
    pub fn valid(x: &Inner) -> bool { true }
}
pub mod d_fs_i32_custom {
    use super::*;
    #[nutype(validate(with = vfn_i32, error = MyErr), derive(Debug, FromStr))]
    pub struct FsI32Custom(i32);
}
pub use d_fs_i32_custom::*;
pub mod ref_fs_i32_custom {
    #![allow(unused_imports, unused_variables, clippy::all)]
    use super::*;
    use super::d_fs_i32_custom::*;
    pub type Inner = i32;
    pub fn sanitize(x: Inner) -> Inner { x }
    pub type Error = MyErr;
    pub fn validate(x: &Inner) -> Result<(), Error> { vfn_i32(x) }
    pub fn try_new(raw: Inner) -> Result<Inner, Error> { let s = sanitize(raw); validate(&s)?; Ok(s) }
    pub fn valid(x: &Inner) -> bool { validate(x).is_ok() }
}
pub mod d_fs_i32_san3_val {
    use super::*;
    #[nutype(sanitize(with = san3_i32), validate(greater_or_equal = sym_lo_i32(), less = sym_hi_i32()), derive(Debug, FromStr))]
    pub struct FsI32San3Val(i32);
}
pub use d_fs_i32_san3_val::*;
pub mod ref_fs_i32_san3_val {
    #![allow(unused_imports, unused_variables, clippy::all)]
    use super::*;
    use super::d_fs_i32_san3_val::*;
    pub type Inner = i32;
    pub fn sanitize(x: Inner) -> Inner { san3_i32(x) }
    pub type Error = FsI32San3ValError;
    pub fn validate(x: &Inner) -> Result<(), Error> { let v = *x; if !(v >= (sym_lo_i32())) { return Err(FsI32San3ValError::GreaterOrEqualViolated); } if !(v < (sym_hi_i32())) { return Err(FsI32San3ValError::LessViolated); } Ok(()) }
    pub fn try_new(raw: Inner) -> Result<Inner, Error> { let s = sanitize(raw); validate(&s)?; Ok(s) }
    pub fn valid(x: &Inner) -> bool { validate(x).is_ok() }
}
pub mod d_fs_i32_san3_nov {
    use super::*;
    #[nutype(sanitize(with = san3_i32), derive(Debug, FromStr))]
    pub struct FsI32San3Nov(i32);
}
pub use d_fs_i32_san3_nov::*;
pub mod ref_fs_i32_san3_nov {
    #![allow(unused_imports, unused_variables, clippy::all)]
    use super::*;
    use super::d_fs_i32_san3_nov::*;
    pub type Inner = i32;
    pub fn sanitize(x: Inner) -> Inner { san3_i32(x) }
    pub fn valid(x: &Inner) -> bool { true }
}
pub mod d_fs_u8_nov {
    use super::*;
    #[nutype(derive(Debug, FromStr))]
    pub struct FsU8Nov(u8);
}
pub use d_fs_u8_nov::*;
pub mod ref_fs_u8_nov {
    #![allow(unused_imports, unused_variables, clippy::all)]
    use super::*;
    use super::d_fs_u8_nov::*;
    pub type Inner = u8;
    pub fn sanitize(x: Inner) -> Inner { x }
    pub fn valid(x: &Inner) -> bool { true }
}
pub mod d_fs_u8_val {
    use super::*;
    #[nutype(validate(greater_or_equal = sym_lo_u8(), less = sym_hi_u8()), derive(Debug, FromStr))]
    pub struct FsU8Val(u8);
}
pub use d_fs_u8_val::*;
pub mod ref_fs_u8_val {
    #![allow(unused_imports, unused_variables, clippy::all)]
    use super::*;
    use super::d_fs_u8_val::*;
    pub type Inner = u8;
    pub fn sanitize(x: Inner) -> Inner { x }
    pub type Error = FsU8ValError;
    pub fn validate(x: &Inner) -> Result<(), Error> { let v = *x; if !(v >= (sym_lo_u8())) { return Err(FsU8ValError::GreaterOrEqualViolated); } if !(v < (sym_hi_u8())) { return Err(FsU8ValError::LessViolated); } Ok(()) }
    pub fn try_new(raw: Inner) -> Result<Inner, Error> { let s = sanitize(raw); validate(&s)?; Ok(s) }
    pub fn valid(x: &Inner) -> bool { validate(x).is_ok() }
}
pub mod d_fs_u8_san_val {
    use super::*;
    #[nutype(sanitize(with = san_u8), validate(greater_or_equal = sym_lo_u8(), less = sym_hi_u8()), derive(Debug, FromStr))]
    pub struct FsU8SanVal(u8);
}
pub use d_fs_u8_san_val::*;
pub mod ref_fs_u8_san_val {
    #![allow(unused_imports, unused_variables, clippy::all)]
    use super::*;
    use super::d_fs_u8_san_val::*;
    pub type Inner = u8;
    pub fn sanitize(x: Inner) -> Inner { san_u8(x) }
    pub type Error = FsU8SanValError;
    pub fn validate(x: &Inner) -> Result<(), Error> { let v = *x; if !(v >= (sym_lo_u8())) { return Err(FsU8SanValError::GreaterOrEqualViolated); } if !(v < (sym_hi_u8())) { return Err(FsU8SanValError::LessViolated); } Ok(()) }
    pub fn try_new(raw: Inner) -> Result<Inner, Error> { let s = sanitize(raw); validate(&s)?; Ok(s) }
    pub fn valid(x: &Inner) -> bool { validate(x).is_ok() }
}
pub mod d_fs_u8_san_nov {
    use super::*;
    #[nutype(sanitize(with = san_u8), derive(Debug, FromStr))]
    pub struct FsU8SanNov(u8);
}
pub use d_fs_u8_san_nov::*;
pub mod ref_fs_u8_san_nov {
    #![allow(unused_imports, unused_variables, clippy::all)]
    use super::*;
    use super::d_fs_u8_san_nov::*;
    pub type Inner = u8;
    pub fn sanitize(x: Inner) -> Inner { san_u8(x) }
    pub fn valid(x: &Inner) -> bool { true }
}
pub mod d_fs_u8_custom {
    use super::*;
    #[nutype(validate(with = vfn_u8, error = MyErr), derive(Debug, FromStr))]
    pub struct FsU8Custom(u8);
}
pub use d_fs_u8_custom::*;
pub mod ref_fs_u8_custom {
    #![allow(unused_imports, unused_variables, clippy::all)]
    use super::*;
    use super::d_fs_u8_custom::*;
    pub type Inner = u8;
    pub fn sanitize(x: Inner) -> Inner { x }
    pub type Error = MyErr;
    pub fn validate(x: &Inner) -> Result<(), Error> { vfn_u8(x) }
    pub fn try_new(raw: Inner) -> Result<Inner, Error> { let s = sanitize(raw); validate(&s)?; Ok(s) }
    pub fn valid(x: &Inner) -> bool { validate(x).is_ok() }
}
pub mod d_fs_u8_san3_val {
    use super::*;
    #[nutype(sanitize(with = san3_u8), validate(greater_or_equal = sym_lo_u8(), less = sym_hi_u8()), derive(Debug, FromStr))]
    pub struct FsU8San3Val(u8);
}
pub use d_fs_u8_san3_val::*;
pub mod ref_fs_u8_san3_val {
    #![allow(unused_imports, unused_variables, clippy::all)]
    use super::*;
    use super::d_fs_u8_san3_val::*;
    pub type Inner = u8;
    pub fn sanitize(x: Inner) -> Inner { san3_u8(x) }
    pub type Error = FsU8San3ValError;
    pub fn validate(x: &Inner) -> Result<(), Error> { let v = *x; if !(v >= (sym_lo_u8())) { return Err(FsU8San3ValError::GreaterOrEqualViolated); } if !(v < (sym_hi_u8())) { return Err(FsU8San3ValError::LessViolated); } Ok(()) }
    pub fn try_new(raw: Inner) -> Result<Inner, Error> { let s = sanitize(raw); validate(&s)?; Ok(s) }
    pub fn valid(x: &Inner) -> bool { validate(x).is_ok() }
}
pub mod d_fs_u8_san3_nov {
    use super::*;
    #[nutype(sanitize(with = san3_u8), derive(Debug, FromStr))]
    pub struct FsU8San3Nov(u8);
}
pub use d_fs_u8_san3_nov::*;
pub mod ref_fs_u8_san3_nov {
    #![allow(unused_imports, unused_variables, clippy::all)]
    use super::*;
    use super::d_fs_u8_san3_nov::*;
    pub type Inner = u8;
    pub fn sanitize(x: Inner) -> Inner { san3_u8(x) }
    pub fn valid(x: &Inner) -> bool { true }
}
pub mod d_fs_i128_nov {
    use super::*;
    #[nutype(derive(Debug, FromStr))]
    pub struct FsI128Nov(i128);
}
pub use d_fs_i128_nov::*;
pub mod ref_fs_i128_nov {
    #![allow(unused_imports, unused_variables, clippy::all)]
    use super::*;
    use super::d_fs_i128_nov::*;
    pub type Inner = i128;
    pub fn sanitize(x: Inner) -> Inner { x }
    pub fn valid(x: &Inner) -> bool { true }
}
pub mod d_fs_i128_val {
    use super::*;
    #[nutype(validate(greater_or_equal = sym_lo_i128(), less = sym_hi_i128()), derive(Debug, FromStr))]
    pub struct FsI128Val(i128);
}
pub use d_fs_i128_val::*;
pub mod ref_fs_i128_val {
    #![allow(unused_imports, unused_variables, clippy::all)]
    use super::*;
    use super::d_fs_i128_val::*;
    pub type Inner = i128;
    pub fn sanitize(x: Inner) -> Inner { x }
    pub type Error = FsI128ValError;
    pub fn validate(x: &Inner) -> Result<(), Error> { let v = *x; if !(v >= (sym_lo_i128())) { return Err(FsI128ValError::GreaterOrEqualViolated); } if !(v < (sym_hi_i128())) { return Err(FsI128ValError::LessViolated); } Ok(()) }
    pub fn try_new(raw: Inner) -> Result<Inner, Error> { let s = sanitize(raw); validate(&s)?; Ok(s) }
    pub fn valid(x: &Inner) -> bool { validate(x).is_ok() }
}
pub mod d_fs_i128_san_val {
    use super::*;
    #[nutype(sanitize(with = san_i128), validate(greater_or_equal = sym_lo_i128(), less = sym_hi_i128()), derive(Debug, FromStr))]
    pub struct FsI128SanVal(i128);
}
pub use d_fs_i128_san_val::*;
pub mod ref_fs_i128_san_val {
    #![allow(unused_imports, unused_variables, clippy::all)]
    use super::*;
    use super::d_fs_i128_san_val::*;
    pub type Inner = i128;
    pub fn sanitize(x: Inner) -> Inner { san_i128(x) }
    pub type Error = FsI128SanValError;
    pub fn validate(x: &Inner) -> Result<(), Error> { let v = *x; if !(v >= (sym_lo_i128())) { return Err(FsI128SanValError::GreaterOrEqualViolated); } if !(v < (sym_hi_i128())) { return Err(FsI128SanValError::LessViolated); } Ok(()) }
    pub fn try_new(raw: Inner) -> Result<Inner, Error> { let s = sanitize(raw); validate(&s)?; Ok(s) }
    pub fn valid(x: &Inner) -> bool { validate(x).is_ok() }
}
pub mod d_fs_i128_san_nov {
    use super::*;
    #[nutype(sanitize(with = san_i128), derive(Debug, FromStr))]
    pub struct FsI128SanNov(i128);
}
pub use d_fs_i128_san_nov::*;
pub mod ref_fs_i128_san_nov {
    #![allow(unused_imports, unused_variables, clippy::all)]
    use super::*;
    use super::d_fs_i128_san_nov::*;
    pub type Inner = i128;
    pub fn sanitize(x: Inner) -> Inner { san_i128(x) }
    pub fn valid(x: &Inner) -> bool { true }
}
pub mod d_fs_i128_custom {
    use super::*;
    #[nutype(validate(with = vfn_i128, error = MyErr), derive(Debug, FromStr))]
    pub struct FsI128Custom(i128);
}
pub use d_fs_i128_custom::*;
pub mod ref_fs_i128_custom {
    #![allow(unused_imports, unused_variables, clippy::all)]
    use super::*;
    use super::d_fs_i128_custom::*;
    pub type Inner = i128;
    pub fn sanitize(x: Inner) -> Inner { x }
    pub type Error = MyErr;
    pub fn validate(x: &Inner) -> Result<(), Error> { vfn_i128(x) }
    pub fn try_new(raw: Inner) -> Result<Inner, Error> { let s = sanitize(raw); validate(&s)?; Ok(s) }
    pub fn valid(x: &Inner) -> bool { validate(x).is_ok() }
}
pub mod d_fs_i128_san3_val {
    use super::*;
    #[nutype(sanitize(with = san3_i128), validate(greater_or_equal = sym_lo_i128(), less = sym_hi_i128()), derive(Debug, FromStr))]
    pub struct FsI128San3Val(i128);
}
pub use d_fs_i128_san3_val::*;
pub mod ref_fs_i128_san3_val {
    #![allow(unused_imports, unused_variables, clippy::all)]
    use super::*;
    use super::d_fs_i128_san3_val::*;
    pub type Inner = i128;
    pub fn sanitize(x: Inner) -> Inner { san3_i128(x) }
    pub type Error = FsI128San3ValError;
    pub fn validate(x: &Inner) -> Result<(), Error> { let v = *x; if !(v >= (sym_lo_i128())) { return Err(FsI128San3ValError::GreaterOrEqualViolated); } if !(v < (sym_hi_i128())) { return Err(FsI128San3ValError::LessViolated); } Ok(()) }
    pub fn try_new(raw: Inner) -> Result<Inner, Error> { let s = sanitize(raw); validate(&s)?; Ok(s) }
    pub fn valid(x: &Inner) -> bool { validate(x).is_ok() }
}
pub mod d_fs_i128_san3_nov {
    use super::*;
    #[nutype(sanitize(with = san3_i128), derive(Debug, FromStr))]
    pub struct FsI128San3Nov(i128);
}
pub use d_fs_i128_san3_nov::*;
pub mod ref_fs_i128_san3_nov {
    #![allow(unused_imports, unused_variables, clippy::all)]
    use super::*;
    use super::d_fs_i128_san3_nov::*;
    pub type Inner = i128;
    pub fn sanitize(x: Inner) -> Inner { san3_i128(x) }
    pub fn valid(x: &Inner) -> bool { true }
}
pub mod d_fs_usize_nov {
    use super::*;
    #[nutype(derive(Debug, FromStr))]
    pub struct FsUsizeNov(usize);
}
pub use d_fs_usize_nov::*;
pub mod ref_fs_usize_nov {
    #![allow(unused_imports, unused_variables, clippy::all)]
    use super::*;
    use super::d_fs_usize_nov::*;
    pub type Inner = usize;
    pub fn sanitize(x: Inner) -> Inner { x }
    pub fn valid(x: &Inner) -> bool { true }
}
pub mod d_fs_usize_val {
    use super::*;
    #[nutype(validate(greater_or_equal = sym_lo_usize(), less = sym_hi_usize()), derive(Debug, FromStr))]
    pub struct FsUsizeVal(usize);
}
pub use d_fs_usize_val::*;
pub mod ref_fs_usize_val {
    #![allow(unused_imports, unused_variables, clippy::all)]
    use super::*;
    use super::d_fs_usize_val::*;
    pub type Inner = usize;
    pub fn sanitize(x: Inner) -> Inner { x }
    pub type Error = FsUsizeValError;
    pub fn validate(x: &Inner) -> Result<(), Error> { let v = *x; if !(v >= (sym_lo_usize())) { return Err(FsUsizeValError::GreaterOrEqualViolated); } if !(v < (sym_hi_usize())) { return Err(FsUsizeValError::LessViolated); } Ok(()) }
    pub fn try_new(raw: Inner) -> Result<Inner, Error> { let s = sanitize(raw); validate(&s)?; Ok(s) }
    pub fn valid(x: &Inner) -> bool { validate(x).is_ok() }
}
pub mod d_fs_usize_san_val {
    use super::*;
    #[nutype(sanitize(with = san_usize), validate(greater_or_equal = sym_lo_usize(), less = sym_hi_usize()), derive(Debug, FromStr))]
    pub struct FsUsizeSanVal(usize);
}
pub use d_fs_usize_san_val::*;
pub mod ref_fs_usize_san_val {
    #![allow(unused_imports, unused_variables, clippy::all)]
    use super::*;
    use super::d_fs_usize_san_val::*;
    pub type Inner = usize;
    pub fn sanitize(x: Inner) -> Inner { san_usize(x) }
    pub type Error = FsUsizeSanValError;
    pub fn validate(x: &Inner) -> Result<(), Error> { let v = *x; if !(v >= (sym_lo_usize())) { return Err(FsUsizeSanValError::GreaterOrEqualViolated); } if !(v < (sym_hi_usize())) { return Err(FsUsizeSanValError::LessViolated); } Ok(()) }
    pub fn try_new(raw: Inner) -> Result<Inner, Error> { let s = sanitize(raw); validate(&s)?; Ok(s) }
    pub fn valid(x: &Inner) -> bool { validate(x).is_ok() }
}
pub mod d_fs_usize_san_nov {
    use super::*;
    #[nutype(sanitize(with = san_usize), derive(Debug, FromStr))]
    pub struct FsUsizeSanNov(usize);
}
pub use d_fs_usize_san_nov::*;
pub mod ref_fs_usize_san_nov {
    #![allow(unused_imports, unused_variables, clippy::all)]
    use super::*;
    use super::d_fs_usize_san_nov::*;
    pub type Inner = usize;
    pub fn sanitize(x: Inner) -> Inner { san_usize(x) }
    pub fn valid(x: &Inner) -> bool { true }
}
pub mod d_fs_usize_custom {
    use super::*;
    #[nutype(validate(with = vfn_usize, error = MyErr), derive(Debug, FromStr))]
    pub struct FsUsizeCustom(usize);
}
pub use d_fs_usize_custom::*;
pub mod ref_fs_usize_custom {
    #![allow(unused_imports, unused_variables, clippy::all)]
    use super::*;
    use super::d_fs_usize_custom::*;
    pub type Inner = usize;
    pub fn sanitize(x: Inner) -> Inner { x }
    pub type Error = MyErr;
    pub fn validate(x: &Inner) -> Result<(), Error> { vfn_usize(x) }
    pub fn try_new(raw: Inner) -> Result<Inner, Error> { let s = sanitize(raw); validate(&s)?; Ok(s) }
    pub fn valid(x: &Inner) -> bool { validate(x).is_ok() }
}
pub mod d_fs_usize_san3_val {
    use super::*;
    #[nutype(sanitize(with = san3_usize), validate(greater_or_equal = sym_lo_usize(), less = sym_hi_usize()), derive(Debug, FromStr))]
    pub struct FsUsizeSan3Val(usize);
}
pub use d_fs_usize_san3_val::*;
pub mod ref_fs_usize_san3_val {
    #![allow(unused_imports, unused_variables, clippy::all)]
    use super::*;
    use super::d_fs_usize_san3_val::*;
    pub type Inner = usize;
    pub fn sanitize(x: Inner) -> Inner { san3_usize(x) }
    pub type Error = FsUsizeSan3ValError;
    pub fn validate(x: &Inner) -> Result<(), Error> { let v = *x; if !(v >= (sym_lo_usize())) { return Err(FsUsizeSan3ValError::GreaterOrEqualViolated); } if !(v < (sym_hi_usize())) { return Err(FsUsizeSan3ValError::LessViolated); } Ok(()) }
    pub fn try_new(raw: Inner) -> Result<Inner, Error> { let s = sanitize(raw); validate(&s)?; Ok(s) }
    pub fn valid(x: &Inner) -> bool { validate(x).is_ok() }
}
pub mod d_fs_usize_san3_nov {
    use super::*;
    #[nutype(sanitize(with = san3_usize), derive(Debug, FromStr))]
    pub struct FsUsizeSan3Nov(usize);
}
pub use d_fs_usize_san3_nov::*;
pub mod ref_fs_usize_san3_nov {
    #![allow(unused_imports, unused_variables, clippy::all)]
    use super::*;
    use super::d_fs_usize_san3_nov::*;
    pub type Inner = usize;
    pub fn sanitize(x: Inner) -> Inner { san3_usize(x) }
    pub fn valid(x: &Inner) -> bool { true }
}
pub mod d_fs_f32_nov {
    use super::*;
    #[nutype(derive(Debug, FromStr))]
    pub struct FsF32Nov(f32);
}
pub use d_fs_f32_nov::*;
pub mod ref_fs_f32_nov {
    #![allow(unused_imports, unused_variables, clippy::all)]
    use super::*;
    use super::d_fs_f32_nov::*;
    pub type Inner = f32;
    pub fn sanitize(x: Inner) -> Inner { x }
    pub fn valid(x: &Inner) -> bool { true }
}
pub mod d_fs_f32_val {
    use super::*;
    #[nutype(validate(finite, greater_or_equal = sym_lo_f32(), less = sym_hi_f32()), derive(Debug, FromStr))]
    pub struct FsF32Val(f32);
}
pub use d_fs_f32_val::*;
pub mod ref_fs_f32_val {
    #![allow(unused_imports, unused_variables, clippy::all)]
    use super::*;
    use super::d_fs_f32_val::*;
    pub type Inner = f32;
    pub fn sanitize(x: Inner) -> Inner { x }
    pub type Error = FsF32ValError;
    pub fn validate(x: &Inner) -> Result<(), Error> { let v = *x; if !v.is_finite() { return Err(FsF32ValError::FiniteViolated); } if !!(v < (sym_lo_f32())) { return Err(FsF32ValError::GreaterOrEqualViolated); } if !!(v >= (sym_hi_f32())) { return Err(FsF32ValError::LessViolated); } Ok(()) }
    pub fn try_new(raw: Inner) -> Result<Inner, Error> { let s = sanitize(raw); validate(&s)?; Ok(s) }
    pub fn valid(x: &Inner) -> bool { validate(x).is_ok() }
}
pub mod d_fs_f32_san_val {
    use super::*;
    #[nutype(sanitize(with = san_f32), validate(finite, greater_or_equal = sym_lo_f32(), less = sym_hi_f32()), derive(Debug, FromStr))]
    pub struct FsF32SanVal(f32);
}
pub use d_fs_f32_san_val::*;
pub mod ref_fs_f32_san_val {
    #![allow(unused_imports, unused_variables, clippy::all)]
    use super::*;
    use super::d_fs_f32_san_val::*;
    pub type Inner = f32;
    pub fn sanitize(x: Inner) -> Inner { san_f32(x) }
    pub type Error = FsF32SanValError;
    pub fn validate(x: &Inner) -> Result<(), Error> { let v = *x; if !v.is_finite() { return Err(FsF32SanValError::FiniteViolated); } if !!(v < (sym_lo_f32())) { return Err(FsF32SanValError::GreaterOrEqualViolated); } if !!(v >= (sym_hi_f32())) { return Err(FsF32SanValError::LessViolated); } Ok(()) }
    pub fn try_new(raw: Inner) -> Result<Inner, Error> { let s = sanitize(raw); validate(&s)?; Ok(s) }
    pub fn valid(x: &Inner) -> bool { validate(x).is_ok() }
}
pub mod d_fs_f32_san_nov {
    use super::*;
    #[nutype(sanitize(with = san_f32), derive(Debug, FromStr))]
    pub struct FsF32SanNov(f32);
}
pub use d_fs_f32_san_nov::*;
pub mod ref_fs_f32_san_nov {
    #![allow(unused_imports, unused_variables, clippy::all)]
    use super::*;
    use super::d_fs_f32_san_nov::*;
    pub type Inner = f32;
    pub fn sanitize(x: Inner) -> Inner { san_f32(x) }
    pub fn valid(x: &Inner) -> bool { true }
}
pub mod d_fs_f32_custom {
    use super::*;
    #[nutype(validate(with = vfn_f32, error = MyErr), derive(Debug, FromStr))]
    pub struct FsF32Custom(f32);
}
pub use d_fs_f32_custom::*;
pub mod ref_fs_f32_custom {
    #![allow(unused_imports, unused_variables, clippy::all)]
    use super::*;
    use super::d_fs_f32_custom::*;
    pub type Inner = f32;
    pub fn sanitize(x: Inner) -> Inner { x }
    pub type Error = MyErr;
    pub fn validate(x: &Inner) -> Result<(), Error> { vfn_f32(x) }
    pub fn try_new(raw: Inner) -> Result<Inner, Error> { let s = sanitize(raw); validate(&s)?; Ok(s) }
    pub fn valid(x: &Inner) -> bool { validate(x).is_ok() }
}
pub mod d_fs_f32_san3_val {
    use super::*;
    #[nutype(sanitize(with = san3_f32), validate(finite, greater_or_equal = sym_lo_f32(), less = sym_hi_f32()), derive(Debug, FromStr))]
    pub struct FsF32San3Val(f32);
}
pub use d_fs_f32_san3_val::*;
pub mod ref_fs_f32_san3_val {
    #![allow(unused_imports, unused_variables, clippy::all)]
    use super::*;
    use super::d_fs_f32_san3_val::*;
    pub type Inner = f32;
    pub fn sanitize(x: Inner) -> Inner { san3_f32(x) }
    pub type Error = FsF32San3ValError;
    pub fn validate(x: &Inner) -> Result<(), Error> { let v = *x; if !v.is_finite() { return Err(FsF32San3ValError::FiniteViolated); } if !!(v < (sym_lo_f32())) { return Err(FsF32San3ValError::GreaterOrEqualViolated); } if !!(v >= (sym_hi_f32())) { return Err(FsF32San3ValError::LessViolated); } Ok(()) }
    pub fn try_new(raw: Inner) -> Result<Inner, Error> { let s = sanitize(raw); validate(&s)?; Ok(s) }
    pub fn valid(x: &Inner) -> bool { validate(x).is_ok() }
}
pub mod d_fs_f32_san3_nov {
    use super::*;
    #[nutype(sanitize(with = san3_f32), derive(Debug, FromStr))]
    pub struct FsF32San3Nov(f32);
}
pub use d_fs_f32_san3_nov::*;
pub mod ref_fs_f32_san3_nov {
    #![allow(unused_imports, unused_variables, clippy::all)]
    use super::*;
    use super::d_fs_f32_san3_nov::*;
    pub type Inner = f32;
    pub fn sanitize(x: Inner) -> Inner { san3_f32(x) }
    pub fn valid(x: &Inner) -> bool { true }
}
pub mod d_fs_f64_nov {
    use super::*;
    #[nutype(derive(Debug, FromStr))]
    pub struct FsF64Nov(f64);
}
pub use d_fs_f64_nov::*;
pub mod ref_fs_f64_nov {
    #![allow(unused_imports, unused_variables, clippy::all)]
    use super::*;
    use super::d_fs_f64_nov::*;
    pub type Inner = f64;
    pub fn sanitize(x: Inner) -> Inner { x }
    pub fn valid(x: &Inner) -> bool { true }
}
pub mod d_fs_f64_val {
    use super::*;
    #[nutype(validate(finite, greater_or_equal = sym_lo_f64(), less = sym_hi_f64()), derive(Debug, FromStr))]
    pub struct FsF64Val(f64);
}
pub use d_fs_f64_val::*;
pub mod ref_fs_f64_val {
    #![allow(unused_imports, unused_variables, clippy::all)]
    use super::*;
    use super::d_fs_f64_val::*;
    pub type Inner = f64;
    pub fn sanitize(x: Inner) -> Inner { x }
    pub type Error = FsF64ValError;
    pub fn validate(x: &Inner) -> Result<(), Error> { let v = *x; if !v.is_finite() { return Err(FsF64ValError::FiniteViolated); } if !!(v < (sym_lo_f64())) { return Err(FsF64ValError::GreaterOrEqualViolated); } if !!(v >= (sym_hi_f64())) { return Err(FsF64ValError::LessViolated); } Ok(()) }
    pub fn try_new(raw: Inner) -> Result<Inner, Error> { let s = sanitize(raw); validate(&s)?; Ok(s) }
    pub fn valid(x: &Inner) -> bool { validate(x).is_ok() }
}
pub mod d_fs_f64_san_val {
    use super::*;
    #[nutype(sanitize(with = san_f64), validate(finite, greater_or_equal = sym_lo_f64(), less = sym_hi_f64()), derive(Debug, FromStr))]
    pub struct FsF64SanVal(f64);
}
pub use d_fs_f64_san_val::*;
pub mod ref_fs_f64_san_val {
    #![allow(unused_imports, unused_variables, clippy::all)]
    use super::*;
    use super::d_fs_f64_san_val::*;
    pub type Inner = f64;
    pub fn sanitize(x: Inner) -> Inner { san_f64(x) }
    pub type Error = FsF64SanValError;
    pub fn validate(x: &Inner) -> Result<(), Error> { let v = *x; if !v.is_finite() { return Err(FsF64SanValError::FiniteViolated); } if !!(v < (sym_lo_f64())) { return Err(FsF64SanValError::GreaterOrEqualViolated); } if !!(v >= (sym_hi_f64())) { return Err(FsF64SanValError::LessViolated); } Ok(()) }
    pub fn try_new(raw: Inner) -> Result<Inner, Error> { let s = sanitize(raw); validate(&s)?; Ok(s) }
    pub fn valid(x: &Inner) -> bool { validate(x).is_ok() }
}
pub mod d_fs_f64_san_nov {
    use super::*;
    #[nutype(sanitize(with = san_f64), derive(Debug, FromStr))]
    pub struct FsF64SanNov(f64);
}
pub use d_fs_f64_san_nov::*;
pub mod ref_fs_f64_san_nov {
    #![allow(unused_imports, unused_variables, clippy::all)]
    use super::*;
    use super::d_fs_f64_san_nov::*;
    pub type Inner = f64;
    pub fn sanitize(x: Inner) -> Inner { san_f64(x) }
    pub fn valid(x: &Inner) -> bool { true }
}
pub mod d_fs_f64_custom {
    use super::*;
    #[nutype(validate(with = vfn_f64, error = MyErr), derive(Debug, FromStr))]
    pub struct FsF64Custom(f64);
}
pub use d_fs_f64_custom::*;
pub mod ref_fs_f64_custom {
    #![allow(unused_imports, unused_variables, clippy::all)]
    use super::*;
    use super::d_fs_f64_custom::*;
    pub type Inner = f64;
    pub fn sanitize(x: Inner) -> Inner { x }
    pub type Error = MyErr;
    pub fn validate(x: &Inner) -> Result<(), Error> { vfn_f64(x) }
    pub fn try_new(raw: Inner) -> Result<Inner, Error> { let s = sanitize(raw); validate(&s)?; Ok(s) }
    pub fn valid(x: &Inner) -> bool { validate(x).is_ok() }
}
pub mod d_fs_f64_san3_val {
    use super::*;
    #[nutype(sanitize(with = san3_f64), validate(finite, greater_or_equal = sym_lo_f64(), less = sym_hi_f64()), derive(Debug, FromStr))]
    pub struct FsF64San3Val(f64);
}
pub use d_fs_f64_san3_val::*;
pub mod ref_fs_f64_san3_val {
    #![allow(unused_imports, unused_variables, clippy::all)]
    use super::*;
    use super::d_fs_f64_san3_val::*;
    pub type Inner = f64;
    pub fn sanitize(x: Inner) -> Inner { san3_f64(x) }
    pub type Error = FsF64San3ValError;
    pub fn validate(x: &Inner) -> Result<(), Error> { let v = *x; if !v.is_finite() { return Err(FsF64San3ValError::FiniteViolated); } if !!(v < (sym_lo_f64())) { return Err(FsF64San3ValError::GreaterOrEqualViolated); } if !!(v >= (sym_hi_f64())) { return Err(FsF64San3ValError::LessViolated); } Ok(()) }
    pub fn try_new(raw: Inner) -> Result<Inner, Error> { let s = sanitize(raw); validate(&s)?; Ok(s) }
    pub fn valid(x: &Inner) -> bool { validate(x).is_ok() }
}
pub mod d_fs_f64_san3_nov {
    use super::*;
    #[nutype(sanitize(with = san3_f64), derive(Debug, FromStr))]
    pub struct FsF64San3Nov(f64);
}
pub use d_fs_f64_san3_nov::*;
pub mod ref_fs_f64_san3_nov {
    #![allow(unused_imports, unused_variables, clippy::all)]
    use super::*;
    use super::d_fs_f64_san3_nov::*;
    pub type Inner = f64;
    pub fn sanitize(x: Inner) -> Inner { san3_f64(x) }
    pub fn valid(x: &Inner) -> bool { true }
}
pub mod d_fs_point_nov {
    use super::*;
    #[nutype(derive(Debug, FromStr))]
    pub struct FsPointNov(Point);
}
pub use d_fs_point_nov::*;
pub mod ref_fs_point_nov {
    #![allow(unused_imports, unused_variables, clippy::all)]
    use super::*;
    use super::d_fs_point_nov::*;
    pub type Inner = Point;
    pub fn sanitize(x: Inner) -> Inner { x }
    pub fn valid(x: &Inner) -> bool { true }
}
pub mod d_fs_point_san_pred {
    use super::*;
    #[nutype(sanitize(with = san_point), validate(predicate = pred_point), derive(Debug, FromStr))]
    pub struct FsPointSanPred(Point);
}
pub use d_fs_point_san_pred::*;
pub mod ref_fs_point_san_pred {
    #![allow(unused_imports, unused_variables, clippy::all)]
    use super::*;
    use super::d_fs_point_san_pred::*;
    pub type Inner = Point;
    pub fn sanitize(x: Inner) -> Inner { san_point(x) }
    pub type Error = FsPointSanPredError;
    pub fn validate(x: &Inner) -> Result<(), Error> { if !pred_point(x) { return Err(FsPointSanPredError::PredicateViolated); } Ok(()) }
    pub fn try_new(raw: Inner) -> Result<Inner, Error> { let s = sanitize(raw); validate(&s)?; Ok(s) }
    pub fn valid(x: &Inner) -> bool { validate(x).is_ok() }
}
pub mod d_fs_point_san_nov {
    use super::*;
    #[nutype(sanitize(with = san_point), derive(Debug, FromStr))]
    pub struct FsPointSanNov(Point);
}
pub use d_fs_point_san_nov::*;
pub mod ref_fs_point_san_nov {
    #![allow(unused_imports, unused_variables, clippy::all)]
    use super::*;
    use super::d_fs_point_san_nov::*;
    pub type Inner = Point;
    pub fn sanitize(x: Inner) -> Inner { san_point(x) }
    pub fn valid(x: &Inner) -> bool { true }
}
pub mod d_fs_gen_nov {
    use super::*;
    #[nutype(derive(Debug, FromStr))]
    pub struct FsGenNov<T: Sat>(T);
}
pub use d_fs_gen_nov::*;
pub mod ref_fs_gen_nov {
    #![allow(unused_imports, unused_variables, clippy::all)]
    use super::*;
    use super::d_fs_gen_nov::*;
    pub type Inner = i32;
    pub fn sanitize(x: Inner) -> Inner { x }
    pub fn valid(x: &Inner) -> bool { true }
}
pub mod d_fs_gen_san_nov {
    use super::*;
    #[nutype(sanitize(with = san_gen), derive(Debug, FromStr))]
    pub struct FsGenSanNov<T: Sat>(T);
}
pub use d_fs_gen_san_nov::*;
pub mod ref_fs_gen_san_nov {
    #![allow(unused_imports, unused_variables, clippy::all)]
    use super::*;
    use super::d_fs_gen_san_nov::*;
    pub type Inner = i32;
    pub fn sanitize(x: Inner) -> Inner { san_gen(x) }
    pub fn valid(x: &Inner) -> bool { true }
}
pub mod d_fs_gen_san_pred {
    use super::*;
    #[nutype(sanitize(with = san_gen), validate(predicate = pred_gen), derive(Debug, FromStr))]
    pub struct FsGenSanPred<T: Sat>(T);
}
pub use d_fs_gen_san_pred::*;
pub mod ref_fs_gen_san_pred {
    #![allow(unused_imports, unused_variables, clippy::all)]
    use super::*;
    use super::d_fs_gen_san_pred::*;
    pub type Inner = i32;
    pub fn sanitize(x: Inner) -> Inner { san_gen(x) }
    pub type Error = FsGenSanPredError;
    pub fn validate(x: &Inner) -> Result<(), Error> { if !pred_gen(x) { return Err(FsGenSanPredError::PredicateViolated); } Ok(()) }
    pub fn try_new(raw: Inner) -> Result<Inner, Error> { let s = sanitize(raw); validate(&s)?; Ok(s) }
    pub fn valid(x: &Inner) -> bool { validate(x).is_ok() }
}
pub mod d_fs_gen_custom {
    use super::*;
    #[nutype(validate(with = vfn_gen, error = MyErr), derive(Debug, FromStr))]
    pub struct FsGenCustom<T: Sat>(T);
}
pub use d_fs_gen_custom::*;
pub mod ref_fs_gen_custom {
    #![allow(unused_imports, unused_variables, clippy::all)]
    use super::*;
    use super::d_fs_gen_custom::*;
    pub type Inner = i32;
    pub fn sanitize(x: Inner) -> Inner { x }
    pub type Error = MyErr;
    pub fn validate(x: &Inner) -> Result<(), Error> { vfn_gen(x) }
    pub fn try_new(raw: Inner) -> Result<Inner, Error> { let s = sanitize(raw); validate(&s)?; Ok(s) }
    pub fn valid(x: &Inner) -> bool { validate(x).is_ok() }
}
pub static mut P_CALLS: usize = 0;
pub static mut P_PTR: usize = 0;
pub static mut P_LEN: usize = 0;
pub static mut P_OK: bool = true;
pub static mut P_ERR_SEL: u8 = 0;
pub static mut P_VAL_F32: f32 = 0 as f32;
pub fn parse_err_f32() -> core::num::ParseFloatError { unsafe { if P_ERR_SEL == 0 { "".parse::<f64>().unwrap_err() } else { "x".parse::<f64>().unwrap_err() } } }
pub fn stub_parse_f32(s: &str) -> Result<f32, core::num::ParseFloatError> { unsafe { P_CALLS += 1; P_PTR = s.as_ptr() as usize; P_LEN = s.len(); if P_OK { Ok(P_VAL_F32) } else { Err(parse_err_f32()) } } }
pub static mut P_VAL_F64: f64 = 0 as f64;
pub fn parse_err_f64() -> core::num::ParseFloatError { unsafe { if P_ERR_SEL == 0 { "".parse::<f32>().unwrap_err() } else { "x".parse::<f32>().unwrap_err() } } }
pub fn stub_parse_f64(s: &str) -> Result<f64, core::num::ParseFloatError> { unsafe { P_CALLS += 1; P_PTR = s.as_ptr() as usize; P_LEN = s.len(); if P_OK { Ok(P_VAL_F64) } else { Err(parse_err_f64()) } } }
pub static mut P_VAL_I128: i128 = 0 as i128;
pub fn parse_err_i128() -> core::num::ParseIntError { unsafe { if P_ERR_SEL == 0 { "".parse::<u8>().unwrap_err() } else if P_ERR_SEL == 1 { "x".parse::<u8>().unwrap_err() } else { "99999999999999999999999999999999999999999999".parse::<u8>().unwrap_err() } } }
pub fn stub_parse_i128(s: &str) -> Result<i128, core::num::ParseIntError> { unsafe { P_CALLS += 1; P_PTR = s.as_ptr() as usize; P_LEN = s.len(); if P_OK { Ok(P_VAL_I128) } else { Err(parse_err_i128()) } } }
pub static mut P_VAL_I32: i32 = 0 as i32;
pub fn parse_err_i32() -> core::num::ParseIntError { unsafe { if P_ERR_SEL == 0 { "".parse::<u8>().unwrap_err() } else if P_ERR_SEL == 1 { "x".parse::<u8>().unwrap_err() } else { "99999999999999999999999999999999999999999999".parse::<u8>().unwrap_err() } } }
pub fn stub_parse_i32(s: &str) -> Result<i32, core::num::ParseIntError> { unsafe { P_CALLS += 1; P_PTR = s.as_ptr() as usize; P_LEN = s.len(); if P_OK { Ok(P_VAL_I32) } else { Err(parse_err_i32()) } } }
pub static mut P_VAL_U8: u8 = 0 as u8;
pub fn parse_err_u8() -> core::num::ParseIntError { unsafe { if P_ERR_SEL == 0 { "".parse::<i64>().unwrap_err() } else if P_ERR_SEL == 1 { "x".parse::<i64>().unwrap_err() } else { "99999999999999999999999999999999999999999999".parse::<i64>().unwrap_err() } } }
pub fn stub_parse_u8(s: &str) -> Result<u8, core::num::ParseIntError> { unsafe { P_CALLS += 1; P_PTR = s.as_ptr() as usize; P_LEN = s.len(); if P_OK { Ok(P_VAL_U8) } else { Err(parse_err_u8()) } } }
pub static mut P_VAL_USIZE: usize = 0 as usize;
pub fn parse_err_usize() -> core::num::ParseIntError { unsafe { if P_ERR_SEL == 0 { "".parse::<u8>().unwrap_err() } else if P_ERR_SEL == 1 { "x".parse::<u8>().unwrap_err() } else { "99999999999999999999999999999999999999999999".parse::<u8>().unwrap_err() } } }
pub fn stub_parse_usize(s: &str) -> Result<usize, core::num::ParseIntError> { unsafe { P_CALLS += 1; P_PTR = s.as_ptr() as usize; P_LEN = s.len(); if P_OK { Ok(P_VAL_USIZE) } else { Err(parse_err_usize()) } } }
#[cfg(kani)]
mod harness {
    use super::*;
    #[kani::proof]
    #[kani::stub(<i32 as ::core::str::FromStr>::from_str, stub_parse_i32)]
    fn k_fs_i32_nov__FromStr__from_str() {
        unsafe { P_OK = kani::any(); P_VAL_I32 = kani::any(); P_ERR_SEL = kani::any(); P_CALLS = 0; }
        let s: &str = " \u{a0}7x \n";
        let r = <FsI32Nov as ::core::str::FromStr>::from_str(s);
        unsafe {
            assert!(P_CALLS == 1, "the inner type's FromStr is invoked exactly once");
            assert!(P_PTR == s.as_ptr() as usize && P_LEN == s.len(), "the inner parser receives exactly the given string (not a trimmed / altered one)");
            if !P_OK {
                match r { Err(FsI32NovParseError::Parse(e)) => assert!(e == parse_err_i32(), "Parse carries the inner parser's error unchanged"), _ => assert!(false, "inner parse failure must yield the Parse error") }
            } else {
                match r { Ok(v) => assert!(v.into_inner() == ref_fs_i32_nov::sanitize(P_VAL_I32), "from_str yields new(parsed)"), _ => assert!(false, "from_str of a parsable string must be Ok") }
            }
        }

        kani::cover!(true, "reached");
    }
    #[kani::proof]
    #[kani::stub(<i32 as ::core::str::FromStr>::from_str, stub_parse_i32)]
    fn k_fs_i32_val__FromStr__from_str() {
        unsafe { SYM_LO_I32 = kani::any(); }
        unsafe { SYM_HI_I32 = kani::any(); }
        unsafe { P_OK = kani::any(); P_VAL_I32 = kani::any(); P_ERR_SEL = kani::any(); P_CALLS = 0; }
        let s: &str = " \u{a0}7x \n";
        let r = <FsI32Val as ::core::str::FromStr>::from_str(s);
        unsafe {
            assert!(P_CALLS == 1, "the inner type's FromStr is invoked exactly once");
            assert!(P_PTR == s.as_ptr() as usize && P_LEN == s.len(), "the inner parser receives exactly the given string (not a trimmed / altered one)");
            if !P_OK {
                match r { Err(FsI32ValParseError::Parse(e)) => assert!(e == parse_err_i32(), "Parse carries the inner parser's error unchanged"), _ => assert!(false, "inner parse failure must yield the Parse error") }
            } else {
                let expect = ref_fs_i32_val::try_new(P_VAL_I32);
                match (r, expect) {
                    (Ok(v), Ok(e)) => assert!(v.into_inner() == e, "from_str yields what the constructor yields for the parsed value"),
                    (Err(FsI32ValParseError::Validate(e1)), Err(e2)) => assert!(e1 == e2, "Validate carries the constructor's error"),
                    _ => assert!(false, "from_str must agree with the constructor on the parsed value"),
                }
            }
        }

        kani::cover!(true, "reached");
    }
    #[kani::proof]
    #[kani::stub(<i32 as ::core::str::FromStr>::from_str, stub_parse_i32)]
    fn k_fs_i32_san_val__FromStr__from_str() {
        unsafe { SYM_LO_I32 = kani::any(); }
        unsafe { SYM_HI_I32 = kani::any(); }
        unsafe { P_OK = kani::any(); P_VAL_I32 = kani::any(); P_ERR_SEL = kani::any(); P_CALLS = 0; }
        let s: &str = " \u{a0}7x \n";
        let r = <FsI32SanVal as ::core::str::FromStr>::from_str(s);
        unsafe {
            assert!(P_CALLS == 1, "the inner type's FromStr is invoked exactly once");
            assert!(P_PTR == s.as_ptr() as usize && P_LEN == s.len(), "the inner parser receives exactly the given string (not a trimmed / altered one)");
            if !P_OK {
                match r { Err(FsI32SanValParseError::Parse(e)) => assert!(e == parse_err_i32(), "Parse carries the inner parser's error unchanged"), _ => assert!(false, "inner parse failure must yield the Parse error") }
            } else {
                let expect = ref_fs_i32_san_val::try_new(P_VAL_I32);
                match (r, expect) {
                    (Ok(v), Ok(e)) => assert!(v.into_inner() == e, "from_str yields what the constructor yields for the parsed value"),
                    (Err(FsI32SanValParseError::Validate(e1)), Err(e2)) => assert!(e1 == e2, "Validate carries the constructor's error"),
                    _ => assert!(false, "from_str must agree with the constructor on the parsed value"),
                }
            }
        }

        kani::cover!(true, "reached");
    }
    #[kani::proof]
    #[kani::stub(<i32 as ::core::str::FromStr>::from_str, stub_parse_i32)]
    fn k_fs_i32_san_nov__FromStr__from_str() {
        unsafe { P_OK = kani::any(); P_VAL_I32 = kani::any(); P_ERR_SEL = kani::any(); P_CALLS = 0; }
        let s: &str = " \u{a0}7x \n";
        let r = <FsI32SanNov as ::core::str::FromStr>::from_str(s);
        unsafe {
            assert!(P_CALLS == 1, "the inner type's FromStr is invoked exactly once");
            assert!(P_PTR == s.as_ptr() as usize && P_LEN == s.len(), "the inner parser receives exactly the given string (not a trimmed / altered one)");
            if !P_OK {
                match r { Err(FsI32SanNovParseError::Parse(e)) => assert!(e == parse_err_i32(), "Parse carries the inner parser's error unchanged"), _ => assert!(false, "inner parse failure must yield the Parse error") }
            } else {
                match r { Ok(v) => assert!(v.into_inner() == ref_fs_i32_san_nov::sanitize(P_VAL_I32), "from_str yields new(parsed)"), _ => assert!(false, "from_str of a parsable string must be Ok") }
            }
        }

        kani::cover!(true, "reached");
    }
    #[kani::proof]
    #[kani::stub(<i32 as ::core::str::FromStr>::from_str, stub_parse_i32)]
    fn k_fs_i32_custom__FromStr__from_str() {
        unsafe { P_OK = kani::any(); P_VAL_I32 = kani::any(); P_ERR_SEL = kani::any(); P_CALLS = 0; }
        let s: &str = " \u{a0}7x \n";
        let r = <FsI32Custom as ::core::str::FromStr>::from_str(s);
        unsafe {
            assert!(P_CALLS == 1, "the inner type's FromStr is invoked exactly once");
            assert!(P_PTR == s.as_ptr() as usize && P_LEN == s.len(), "the inner parser receives exactly the given string (not a trimmed / altered one)");
            if !P_OK {
                match r { Err(FsI32CustomParseError::Parse(e)) => assert!(e == parse_err_i32(), "Parse carries the inner parser's error unchanged"), _ => assert!(false, "inner parse failure must yield the Parse error") }
            } else {
                let expect = ref_fs_i32_custom::try_new(P_VAL_I32);
                match (r, expect) {
                    (Ok(v), Ok(e)) => assert!(v.into_inner() == e, "from_str yields what the constructor yields for the parsed value"),
                    (Err(FsI32CustomParseError::Validate(e1)), Err(e2)) => assert!(e1 == e2, "Validate carries the constructor's error"),
                    _ => assert!(false, "from_str must agree with the constructor on the parsed value"),
                }
            }
        }

        kani::cover!(true, "reached");
    }
    #[kani::proof]
    #[kani::stub(<i32 as ::core::str::FromStr>::from_str, stub_parse_i32)]
    fn k_fs_i32_san3_val__FromStr__from_str() {
        unsafe { SYM_LO_I32 = kani::any(); }
        unsafe { SYM_HI_I32 = kani::any(); }
        unsafe { P_OK = kani::any(); P_VAL_I32 = kani::any(); P_ERR_SEL = kani::any(); P_CALLS = 0; }
        let s: &str = " \u{a0}7x \n";
        let r = <FsI32San3Val as ::core::str::FromStr>::from_str(s);
        unsafe {
            assert!(P_CALLS == 1, "the inner type's FromStr is invoked exactly once");
            assert!(P_PTR == s.as_ptr() as usize && P_LEN == s.len(), "the inner parser receives exactly the given string (not a trimmed / altered one)");
            if !P_OK {
                match r { Err(FsI32San3ValParseError::Parse(e)) => assert!(e == parse_err_i32(), "Parse carries the inner parser's error unchanged"), _ => assert!(false, "inner parse failure must yield the Parse error") }
            } else {
                let expect = ref_fs_i32_san3_val::try_new(P_VAL_I32);
                match (r, expect) {
                    (Ok(v), Ok(e)) => assert!(v.into_inner() == e, "from_str yields what the constructor yields for the parsed value"),
                    (Err(FsI32San3ValParseError::Validate(e1)), Err(e2)) => assert!(e1 == e2, "Validate carries the constructor's error"),
                    _ => assert!(false, "from_str must agree with the constructor on the parsed value"),
                }
            }
        }

        kani::cover!(true, "reached");
    }
    #[kani::proof]
    #[kani::stub(<i32 as ::core::str::FromStr>::from_str, stub_parse_i32)]
    fn k_fs_i32_san3_nov__FromStr__from_str() {
        unsafe { P_OK = kani::any(); P_VAL_I32 = kani::any(); P_ERR_SEL = kani::any(); P_CALLS = 0; }
        let s: &str = " \u{a0}7x \n";
        let r = <FsI32San3Nov as ::core::str::FromStr>::from_str(s);
        unsafe {
            assert!(P_CALLS == 1, "the inner type's FromStr is invoked exactly once");
            assert!(P_PTR == s.as_ptr() as usize && P_LEN == s.len(), "the inner parser receives exactly the given string (not a trimmed / altered one)");
            if !P_OK {
                match r { Err(FsI32San3NovParseError::Parse(e)) => assert!(e == parse_err_i32(), "Parse carries the inner parser's error unchanged"), _ => assert!(false, "inner parse failure must yield the Parse error") }
            } else {
                match r { Ok(v) => assert!(v.into_inner() == ref_fs_i32_san3_nov::sanitize(P_VAL_I32), "from_str yields new(parsed)"), _ => assert!(false, "from_str of a parsable string must be Ok") }
            }
        }

        kani::cover!(true, "reached");
    }
    #[kani::proof]
    #[kani::stub(<u8 as ::core::str::FromStr>::from_str, stub_parse_u8)]
    fn k_fs_u8_nov__FromStr__from_str() {
        unsafe { P_OK = kani::any(); P_VAL_U8 = kani::any(); P_ERR_SEL = kani::any(); P_CALLS = 0; }
        let s: &str = " \u{a0}7x \n";
        let r = <FsU8Nov as ::core::str::FromStr>::from_str(s);
        unsafe {
            assert!(P_CALLS == 1, "the inner type's FromStr is invoked exactly once");
            assert!(P_PTR == s.as_ptr() as usize && P_LEN == s.len(), "the inner parser receives exactly the given string (not a trimmed / altered one)");
            if !P_OK {
                match r { Err(FsU8NovParseError::Parse(e)) => assert!(e == parse_err_u8(), "Parse carries the inner parser's error unchanged"), _ => assert!(false, "inner parse failure must yield the Parse error") }
            } else {
                match r { Ok(v) => assert!(v.into_inner() == ref_fs_u8_nov::sanitize(P_VAL_U8), "from_str yields new(parsed)"), _ => assert!(false, "from_str of a parsable string must be Ok") }
            }
        }

        kani::cover!(true, "reached");
    }
    #[kani::proof]
    #[kani::stub(<u8 as ::core::str::FromStr>::from_str, stub_parse_u8)]
    fn k_fs_u8_val__FromStr__from_str() {
        unsafe { SYM_LO_U8 = kani::any(); }
        unsafe { SYM_HI_U8 = kani::any(); }
        unsafe { P_OK = kani::any(); P_VAL_U8 = kani::any(); P_ERR_SEL = kani::any(); P_CALLS = 0; }
        let s: &str = " \u{a0}7x \n";
        let r = <FsU8Val as ::core::str::FromStr>::from_str(s);
        unsafe {
            assert!(P_CALLS == 1, "the inner type's FromStr is invoked exactly once");
            assert!(P_PTR == s.as_ptr() as usize && P_LEN == s.len(), "the inner parser receives exactly the given string (not a trimmed / altered one)");
            if !P_OK {
                match r { Err(FsU8ValParseError::Parse(e)) => assert!(e == parse_err_u8(), "Parse carries the inner parser's error unchanged"), _ => assert!(false, "inner parse failure must yield the Parse error") }
            } else {
                let expect = ref_fs_u8_val::try_new(P_VAL_U8);
                match (r, expect) {
                    (Ok(v), Ok(e)) => assert!(v.into_inner() == e, "from_str yields what the constructor yields for the parsed value"),
                    (Err(FsU8ValParseError::Validate(e1)), Err(e2)) => assert!(e1 == e2, "Validate carries the constructor's error"),
                    _ => assert!(false, "from_str must agree with the constructor on the parsed value"),
                }
            }
        }

        kani::cover!(true, "reached");
    }
    #[kani::proof]
    #[kani::stub(<u8 as ::core::str::FromStr>::from_str, stub_parse_u8)]
    fn k_fs_u8_san_val__FromStr__from_str() {
        unsafe { SYM_LO_U8 = kani::any(); }
        unsafe { SYM_HI_U8 = kani::any(); }
        unsafe { P_OK = kani::any(); P_VAL_U8 = kani::any(); P_ERR_SEL = kani::any(); P_CALLS = 0; }
        let s: &str = " \u{a0}7x \n";
        let r = <FsU8SanVal as ::core::str::FromStr>::from_str(s);
        unsafe {
            assert!(P_CALLS == 1, "the inner type's FromStr is invoked exactly once");
            assert!(P_PTR == s.as_ptr() as usize && P_LEN == s.len(), "the inner parser receives exactly the given string (not a trimmed / altered one)");
            if !P_OK {
                match r { Err(FsU8SanValParseError::Parse(e)) => assert!(e == parse_err_u8(), "Parse carries the inner parser's error unchanged"), _ => assert!(false, "inner parse failure must yield the Parse error") }
            } else {
                let expect = ref_fs_u8_san_val::try_new(P_VAL_U8);
                match (r, expect) {
                    (Ok(v), Ok(e)) => assert!(v.into_inner() == e, "from_str yields what the constructor yields for the parsed value"),
                    (Err(FsU8SanValParseError::Validate(e1)), Err(e2)) => assert!(e1 == e2, "Validate carries the constructor's error"),
                    _ => assert!(false, "from_str must agree with the constructor on the parsed value"),
                }
            }
        }

        kani::cover!(true, "reached");
    }
    #[kani::proof]
    #[kani::stub(<u8 as ::core::str::FromStr>::from_str, stub_parse_u8)]
    fn k_fs_u8_san_nov__FromStr__from_str() {
        unsafe { P_OK = kani::any(); P_VAL_U8 = kani::any(); P_ERR_SEL = kani::any(); P_CALLS = 0; }
        let s: &str = " \u{a0}7x \n";
        let r = <FsU8SanNov as ::core::str::FromStr>::from_str(s);
        unsafe {
            assert!(P_CALLS == 1, "the inner type's FromStr is invoked exactly once");
            assert!(P_PTR == s.as_ptr() as usize && P_LEN == s.len(), "the inner parser receives exactly the given string (not a trimmed / altered one)");
            if !P_OK {
                match r { Err(FsU8SanNovParseError::Parse(e)) => assert!(e == parse_err_u8(), "Parse carries the inner parser's error unchanged"), _ => assert!(false, "inner parse failure must yield the Parse error") }
            } else {
                match r { Ok(v) => assert!(v.into_inner() == ref_fs_u8_san_nov::sanitize(P_VAL_U8), "from_str yields new(parsed)"), _ => assert!(false, "from_str of a parsable string must be Ok") }
            }
        }

        kani::cover!(true, "reached");
    }
    #[kani::proof]
    #[kani::stub(<u8 as ::core::str::FromStr>::from_str, stub_parse_u8)]
    fn k_fs_u8_custom__FromStr__from_str() {
        unsafe { P_OK = kani::any(); P_VAL_U8 = kani::any(); P_ERR_SEL = kani::any(); P_CALLS = 0; }
        let s: &str = " \u{a0}7x \n";
        let r = <FsU8Custom as ::core::str::FromStr>::from_str(s);
        unsafe {
            assert!(P_CALLS == 1, "the inner type's FromStr is invoked exactly once");
            assert!(P_PTR == s.as_ptr() as usize && P_LEN == s.len(), "the inner parser receives exactly the given string (not a trimmed / altered one)");
            if !P_OK {
                match r { Err(FsU8CustomParseError::Parse(e)) => assert!(e == parse_err_u8(), "Parse carries the inner parser's error unchanged"), _ => assert!(false, "inner parse failure must yield the Parse error") }
            } else {
                let expect = ref_fs_u8_custom::try_new(P_VAL_U8);
                match (r, expect) {
                    (Ok(v), Ok(e)) => assert!(v.into_inner() == e, "from_str yields what the constructor yields for the parsed value"),
                    (Err(FsU8CustomParseError::Validate(e1)), Err(e2)) => assert!(e1 == e2, "Validate carries the constructor's error"),
                    _ => assert!(false, "from_str must agree with the constructor on the parsed value"),
                }
            }
        }

        kani::cover!(true, "reached");
    }
    #[kani::proof]
    #[kani::stub(<u8 as ::core::str::FromStr>::from_str, stub_parse_u8)]
    fn k_fs_u8_san3_val__FromStr__from_str() {
        unsafe { SYM_LO_U8 = kani::any(); }
        unsafe { SYM_HI_U8 = kani::any(); }
        unsafe { P_OK = kani::any(); P_VAL_U8 = kani::any(); P_ERR_SEL = kani::any(); P_CALLS = 0; }
        let s: &str = " \u{a0}7x \n";
        let r = <FsU8San3Val as ::core::str::FromStr>::from_str(s);
        unsafe {
            assert!(P_CALLS == 1, "the inner type's FromStr is invoked exactly once");
            assert!(P_PTR == s.as_ptr() as usize && P_LEN == s.len(), "the inner parser receives exactly the given string (not a trimmed / altered one)");
            if !P_OK {
                match r { Err(FsU8San3ValParseError::Parse(e)) => assert!(e == parse_err_u8(), "Parse carries the inner parser's error unchanged"), _ => assert!(false, "inner parse failure must yield the Parse error") }
            } else {
                let expect = ref_fs_u8_san3_val::try_new(P_VAL_U8);
                match (r, expect) {
                    (Ok(v), Ok(e)) => assert!(v.into_inner() == e, "from_str yields what the constructor yields for the parsed value"),
                    (Err(FsU8San3ValParseError::Validate(e1)), Err(e2)) => assert!(e1 == e2, "Validate carries the constructor's error"),
                    _ => assert!(false, "from_str must agree with the constructor on the parsed value"),
                }
            }
        }

        kani::cover!(true, "reached");
    }
    #[kani::proof]
    #[kani::stub(<u8 as ::core::str::FromStr>::from_str, stub_parse_u8)]
    fn k_fs_u8_san3_nov__FromStr__from_str() {
        unsafe { P_OK = kani::any(); P_VAL_U8 = kani::any(); P_ERR_SEL = kani::any(); P_CALLS = 0; }
        let s: &str = " \u{a0}7x \n";
        let r = <FsU8San3Nov as ::core::str::FromStr>::from_str(s);
        unsafe {
            assert!(P_CALLS == 1, "the inner type's FromStr is invoked exactly once");
            assert!(P_PTR == s.as_ptr() as usize && P_LEN == s.len(), "the inner parser receives exactly the given string (not a trimmed / altered one)");
            if !P_OK {
                match r { Err(FsU8San3NovParseError::Parse(e)) => assert!(e == parse_err_u8(), "Parse carries the inner parser's error unchanged"), _ => assert!(false, "inner parse failure must yield the Parse error") }
            } else {
                match r { Ok(v) => assert!(v.into_inner() == ref_fs_u8_san3_nov::sanitize(P_VAL_U8), "from_str yields new(parsed)"), _ => assert!(false, "from_str of a parsable string must be Ok") }
            }
        }

        kani::cover!(true, "reached");
    }
    #[kani::proof]
    #[kani::stub(<i128 as ::core::str::FromStr>::from_str, stub_parse_i128)]
    fn k_fs_i128_nov__FromStr__from_str() {
        unsafe { P_OK = kani::any(); P_VAL_I128 = kani::any(); P_ERR_SEL = kani::any(); P_CALLS = 0; }
        let s: &str = " \u{a0}7x \n";
        let r = <FsI128Nov as ::core::str::FromStr>::from_str(s);
        unsafe {
            assert!(P_CALLS == 1, "the inner type's FromStr is invoked exactly once");
            assert!(P_PTR == s.as_ptr() as usize && P_LEN == s.len(), "the inner parser receives exactly the given string (not a trimmed / altered one)");
            if !P_OK {
                match r { Err(FsI128NovParseError::Parse(e)) => assert!(e == parse_err_i128(), "Parse carries the inner parser's error unchanged"), _ => assert!(false, "inner parse failure must yield the Parse error") }
            } else {
                match r { Ok(v) => assert!(v.into_inner() == ref_fs_i128_nov::sanitize(P_VAL_I128), "from_str yields new(parsed)"), _ => assert!(false, "from_str of a parsable string must be Ok") }
            }
        }

        kani::cover!(true, "reached");
    }
    #[kani::proof]
    #[kani::stub(<i128 as ::core::str::FromStr>::from_str, stub_parse_i128)]
    fn k_fs_i128_val__FromStr__from_str() {
        unsafe { SYM_LO_I128 = kani::any(); }
        unsafe { SYM_HI_I128 = kani::any(); }
        unsafe { P_OK = kani::any(); P_VAL_I128 = kani::any(); P_ERR_SEL = kani::any(); P_CALLS = 0; }
        let s: &str = " \u{a0}7x \n";
        let r = <FsI128Val as ::core::str::FromStr>::from_str(s);
        unsafe {
            assert!(P_CALLS == 1, "the inner type's FromStr is invoked exactly once");
            assert!(P_PTR == s.as_ptr() as usize && P_LEN == s.len(), "the inner parser receives exactly the given string (not a trimmed / altered one)");
            if !P_OK {
                match r { Err(FsI128ValParseError::Parse(e)) => assert!(e == parse_err_i128(), "Parse carries the inner parser's error unchanged"), _ => assert!(false, "inner parse failure must yield the Parse error") }
            } else {
                let expect = ref_fs_i128_val::try_new(P_VAL_I128);
                match (r, expect) {
                    (Ok(v), Ok(e)) => assert!(v.into_inner() == e, "from_str yields what the constructor yields for the parsed value"),
                    (Err(FsI128ValParseError::Validate(e1)), Err(e2)) => assert!(e1 == e2, "Validate carries the constructor's error"),
                    _ => assert!(false, "from_str must agree with the constructor on the parsed value"),
                }
            }
        }

        kani::cover!(true, "reached");
    }
    #[kani::proof]
    #[kani::stub(<i128 as ::core::str::FromStr>::from_str, stub_parse_i128)]
    fn k_fs_i128_san_val__FromStr__from_str() {
        unsafe { SYM_LO_I128 = kani::any(); }
        unsafe { SYM_HI_I128 = kani::any(); }
        unsafe { P_OK = kani::any(); P_VAL_I128 = kani::any(); P_ERR_SEL = kani::any(); P_CALLS = 0; }
        let s: &str = " \u{a0}7x \n";
        let r = <FsI128SanVal as ::core::str::FromStr>::from_str(s);
        unsafe {
            assert!(P_CALLS == 1, "the inner type's FromStr is invoked exactly once");
            assert!(P_PTR == s.as_ptr() as usize && P_LEN == s.len(), "the inner parser receives exactly the given string (not a trimmed / altered one)");
            if !P_OK {
                match r { Err(FsI128SanValParseError::Parse(e)) => assert!(e == parse_err_i128(), "Parse carries the inner parser's error unchanged"), _ => assert!(false, "inner parse failure must yield the Parse error") }
            } else {
                let expect = ref_fs_i128_san_val::try_new(P_VAL_I128);
                match (r, expect) {
                    (Ok(v), Ok(e)) => assert!(v.into_inner() == e, "from_str yields what the constructor yields for the parsed value"),
                    (Err(FsI128SanValParseError::Validate(e1)), Err(e2)) => assert!(e1 == e2, "Validate carries the constructor's error"),
                    _ => assert!(false, "from_str must agree with the constructor on the parsed value"),
                }
            }
        }

        kani::cover!(true, "reached");
    }
    #[kani::proof]
    #[kani::stub(<i128 as ::core::str::FromStr>::from_str, stub_parse_i128)]
    fn k_fs_i128_san_nov__FromStr__from_str() {
        unsafe { P_OK = kani::any(); P_VAL_I128 = kani::any(); P_ERR_SEL = kani::any(); P_CALLS = 0; }
        let s: &str = " \u{a0}7x \n";
        let r = <FsI128SanNov as ::core::str::FromStr>::from_str(s);
        unsafe {
            assert!(P_CALLS == 1, "the inner type's FromStr is invoked exactly once");
            assert!(P_PTR == s.as_ptr() as usize && P_LEN == s.len(), "the inner parser receives exactly the given string (not a trimmed / altered one)");
            if !P_OK {
                match r { Err(FsI128SanNovParseError::Parse(e)) => assert!(e == parse_err_i128(), "Parse carries the inner parser's error unchanged"), _ => assert!(false, "inner parse failure must yield the Parse error") }
            } else {
                match r { Ok(v) => assert!(v.into_inner() == ref_fs_i128_san_nov::sanitize(P_VAL_I128), "from_str yields new(parsed)"), _ => assert!(false, "from_str of a parsable string must be Ok") }
            }
        }

        kani::cover!(true, "reached");
    }
    #[kani::proof]
    #[kani::stub(<i128 as ::core::str::FromStr>::from_str, stub_parse_i128)]
    fn k_fs_i128_custom__FromStr__from_str() {
        unsafe { P_OK = kani::any(); P_VAL_I128 = kani::any(); P_ERR_SEL = kani::any(); P_CALLS = 0; }
        let s: &str = " \u{a0}7x \n";
        let r = <FsI128Custom as ::core::str::FromStr>::from_str(s);
        unsafe {
            assert!(P_CALLS == 1, "the inner type's FromStr is invoked exactly once");
            assert!(P_PTR == s.as_ptr() as usize && P_LEN == s.len(), "the inner parser receives exactly the given string (not a trimmed / altered one)");
            if !P_OK {
                match r { Err(FsI128CustomParseError::Parse(e)) => assert!(e == parse_err_i128(), "Parse carries the inner parser's error unchanged"), _ => assert!(false, "inner parse failure must yield the Parse error") }
            } else {
                let expect = ref_fs_i128_custom::try_new(P_VAL_I128);
                match (r, expect) {
                    (Ok(v), Ok(e)) => assert!(v.into_inner() == e, "from_str yields what the constructor yields for the parsed value"),
                    (Err(FsI128CustomParseError::Validate(e1)), Err(e2)) => assert!(e1 == e2, "Validate carries the constructor's error"),
                    _ => assert!(false, "from_str must agree with the constructor on the parsed value"),
                }
            }
        }

        kani::cover!(true, "reached");
    }
    #[kani::proof]
    #[kani::stub(<i128 as ::core::str::FromStr>::from_str, stub_parse_i128)]
    fn k_fs_i128_san3_val__FromStr__from_str() {
        unsafe { SYM_LO_I128 = kani::any(); }
        unsafe { SYM_HI_I128 = kani::any(); }
        unsafe { P_OK = kani::any(); P_VAL_I128 = kani::any(); P_ERR_SEL = kani::any(); P_CALLS = 0; }
        let s: &str = " \u{a0}7x \n";
        let r = <FsI128San3Val as ::core::str::FromStr>::from_str(s);
        unsafe {
            assert!(P_CALLS == 1, "the inner type's FromStr is invoked exactly once");
            assert!(P_PTR == s.as_ptr() as usize && P_LEN == s.len(), "the inner parser receives exactly the given string (not a trimmed / altered one)");
            if !P_OK {
                match r { Err(FsI128San3ValParseError::Parse(e)) => assert!(e == parse_err_i128(), "Parse carries the inner parser's error unchanged"), _ => assert!(false, "inner parse failure must yield the Parse error") }
            } else {
                let expect = ref_fs_i128_san3_val::try_new(P_VAL_I128);
                match (r, expect) {
                    (Ok(v), Ok(e)) => assert!(v.into_inner() == e, "from_str yields what the constructor yields for the parsed value"),
                    (Err(FsI128San3ValParseError::Validate(e1)), Err(e2)) => assert!(e1 == e2, "Validate carries the constructor's error"),
                    _ => assert!(false, "from_str must agree with the constructor on the parsed value"),
                }
            }
        }

        kani::cover!(true, "reached");
    }
    #[kani::proof]
    #[kani::stub(<i128 as ::core::str::FromStr>::from_str, stub_parse_i128)]
    fn k_fs_i128_san3_nov__FromStr__from_str() {
        unsafe { P_OK = kani::any(); P_VAL_I128 = kani::any(); P_ERR_SEL = kani::any(); P_CALLS = 0; }
        let s: &str = " \u{a0}7x \n";
        let r = <FsI128San3Nov as ::core::str::FromStr>::from_str(s);
        unsafe {
            assert!(P_CALLS == 1, "the inner type's FromStr is invoked exactly once");
            assert!(P_PTR == s.as_ptr() as usize && P_LEN == s.len(), "the inner parser receives exactly the given string (not a trimmed / altered one)");
            if !P_OK {
                match r { Err(FsI128San3NovParseError::Parse(e)) => assert!(e == parse_err_i128(), "Parse carries the inner parser's error unchanged"), _ => assert!(false, "inner parse failure must yield the Parse error") }
            } else {
                match r { Ok(v) => assert!(v.into_inner() == ref_fs_i128_san3_nov::sanitize(P_VAL_I128), "from_str yields new(parsed)"), _ => assert!(false, "from_str of a parsable string must be Ok") }
            }
        }

        kani::cover!(true, "reached");
    }
    #[kani::proof]
    #[kani::stub(<usize as ::core::str::FromStr>::from_str, stub_parse_usize)]
    fn k_fs_usize_nov__FromStr__from_str() {
        unsafe { P_OK = kani::any(); P_VAL_USIZE = kani::any(); P_ERR_SEL = kani::any(); P_CALLS = 0; }
        let s: &str = " \u{a0}7x \n";
        let r = <FsUsizeNov as ::core::str::FromStr>::from_str(s);
        unsafe {
            assert!(P_CALLS == 1, "the inner type's FromStr is invoked exactly once");
            assert!(P_PTR == s.as_ptr() as usize && P_LEN == s.len(), "the inner parser receives exactly the given string (not a trimmed / altered one)");
            if !P_OK {
                match r { Err(FsUsizeNovParseError::Parse(e)) => assert!(e == parse_err_usize(), "Parse carries the inner parser's error unchanged"), _ => assert!(false, "inner parse failure must yield the Parse error") }
            } else {
                match r { Ok(v) => assert!(v.into_inner() == ref_fs_usize_nov::sanitize(P_VAL_USIZE), "from_str yields new(parsed)"), _ => assert!(false, "from_str of a parsable string must be Ok") }
            }
        }

        kani::cover!(true, "reached");
    }
    #[kani::proof]
    #[kani::stub(<usize as ::core::str::FromStr>::from_str, stub_parse_usize)]
    fn k_fs_usize_val__FromStr__from_str() {
        unsafe { SYM_LO_USIZE = kani::any(); }
        unsafe { SYM_HI_USIZE = kani::any(); }
        unsafe { P_OK = kani::any(); P_VAL_USIZE = kani::any(); P_ERR_SEL = kani::any(); P_CALLS = 0; }
        let s: &str = " \u{a0}7x \n";
        let r = <FsUsizeVal as ::core::str::FromStr>::from_str(s);
        unsafe {
            assert!(P_CALLS == 1, "the inner type's FromStr is invoked exactly once");
            assert!(P_PTR == s.as_ptr() as usize && P_LEN == s.len(), "the inner parser receives exactly the given string (not a trimmed / altered one)");
            if !P_OK {
                match r { Err(FsUsizeValParseError::Parse(e)) => assert!(e == parse_err_usize(), "Parse carries the inner parser's error unchanged"), _ => assert!(false, "inner parse failure must yield the Parse error") }
            } else {
                let expect = ref_fs_usize_val::try_new(P_VAL_USIZE);
                match (r, expect) {
                    (Ok(v), Ok(e)) => assert!(v.into_inner() == e, "from_str yields what the constructor yields for the parsed value"),
                    (Err(FsUsizeValParseError::Validate(e1)), Err(e2)) => assert!(e1 == e2, "Validate carries the constructor's error"),
                    _ => assert!(false, "from_str must agree with the constructor on the parsed value"),
                }
            }
        }

        kani::cover!(true, "reached");
    }
    #[kani::proof]
    #[kani::stub(<usize as ::core::str::FromStr>::from_str, stub_parse_usize)]
    fn k_fs_usize_san_val__FromStr__from_str() {
        unsafe { SYM_LO_USIZE = kani::any(); }
        unsafe { SYM_HI_USIZE = kani::any(); }
        unsafe { P_OK = kani::any(); P_VAL_USIZE = kani::any(); P_ERR_SEL = kani::any(); P_CALLS = 0; }
        let s: &str = " \u{a0}7x \n";
        let r = <FsUsizeSanVal as ::core::str::FromStr>::from_str(s);
        unsafe {
            assert!(P_CALLS == 1, "the inner type's FromStr is invoked exactly once");
            assert!(P_PTR == s.as_ptr() as usize && P_LEN == s.len(), "the inner parser receives exactly the given string (not a trimmed / altered one)");
            if !P_OK {
                match r { Err(FsUsizeSanValParseError::Parse(e)) => assert!(e == parse_err_usize(), "Parse carries the inner parser's error unchanged"), _ => assert!(false, "inner parse failure must yield the Parse error") }
            } else {
                let expect = ref_fs_usize_san_val::try_new(P_VAL_USIZE);
                match (r, expect) {
                    (Ok(v), Ok(e)) => assert!(v.into_inner() == e, "from_str yields what the constructor yields for the parsed value"),
                    (Err(FsUsizeSanValParseError::Validate(e1)), Err(e2)) => assert!(e1 == e2, "Validate carries the constructor's error"),
                    _ => assert!(false, "from_str must agree with the constructor on the parsed value"),
                }
            }
        }

        kani::cover!(true, "reached");
    }
    #[kani::proof]
    #[kani::stub(<usize as ::core::str::FromStr>::from_str, stub_parse_usize)]
    fn k_fs_usize_san_nov__FromStr__from_str() {
        unsafe { P_OK = kani::any(); P_VAL_USIZE = kani::any(); P_ERR_SEL = kani::any(); P_CALLS = 0; }
        let s: &str = " \u{a0}7x \n";
        let r = <FsUsizeSanNov as ::core::str::FromStr>::from_str(s);
        unsafe {
            assert!(P_CALLS == 1, "the inner type's FromStr is invoked exactly once");
            assert!(P_PTR == s.as_ptr() as usize && P_LEN == s.len(), "the inner parser receives exactly the given string (not a trimmed / altered one)");
            if !P_OK {
                match r { Err(FsUsizeSanNovParseError::Parse(e)) => assert!(e == parse_err_usize(), "Parse carries the inner parser's error unchanged"), _ => assert!(false, "inner parse failure must yield the Parse error") }
            } else {
                match r { Ok(v) => assert!(v.into_inner() == ref_fs_usize_san_nov::sanitize(P_VAL_USIZE), "from_str yields new(parsed)"), _ => assert!(false, "from_str of a parsable string must be Ok") }
            }
        }

        kani::cover!(true, "reached");
    }
    #[kani::proof]
    #[kani::stub(<usize as ::core::str::FromStr>::from_str, stub_parse_usize)]
    fn k_fs_usize_custom__FromStr__from_str() {
        unsafe { P_OK = kani::any(); P_VAL_USIZE = kani::any(); P_ERR_SEL = kani::any(); P_CALLS = 0; }
        let s: &str = " \u{a0}7x \n";
        let r = <FsUsizeCustom as ::core::str::FromStr>::from_str(s);
        unsafe {
            assert!(P_CALLS == 1, "the inner type's FromStr is invoked exactly once");
            assert!(P_PTR == s.as_ptr() as usize && P_LEN == s.len(), "the inner parser receives exactly the given string (not a trimmed / altered one)");
            if !P_OK {
                match r { Err(FsUsizeCustomParseError::Parse(e)) => assert!(e == parse_err_usize(), "Parse carries the inner parser's error unchanged"), _ => assert!(false, "inner parse failure must yield the Parse error") }
            } else {
                let expect = ref_fs_usize_custom::try_new(P_VAL_USIZE);
                match (r, expect) {
                    (Ok(v), Ok(e)) => assert!(v.into_inner() == e, "from_str yields what the constructor yields for the parsed value"),
                    (Err(FsUsizeCustomParseError::Validate(e1)), Err(e2)) => assert!(e1 == e2, "Validate carries the constructor's error"),
                    _ => assert!(false, "from_str must agree with the constructor on the parsed value"),
                }
            }
        }

        kani::cover!(true, "reached");
    }
    #[kani::proof]
    #[kani::stub(<usize as ::core::str::FromStr>::from_str, stub_parse_usize)]
    fn k_fs_usize_san3_val__FromStr__from_str() {
        unsafe { SYM_LO_USIZE = kani::any(); }
        unsafe { SYM_HI_USIZE = kani::any(); }
        unsafe { P_OK = kani::any(); P_VAL_USIZE = kani::any(); P_ERR_SEL = kani::any(); P_CALLS = 0; }
        let s: &str = " \u{a0}7x \n";
        let r = <FsUsizeSan3Val as ::core::str::FromStr>::from_str(s);
        unsafe {
            assert!(P_CALLS == 1, "the inner type's FromStr is invoked exactly once");
            assert!(P_PTR == s.as_ptr() as usize && P_LEN == s.len(), "the inner parser receives exactly the given string (not a trimmed / altered one)");
            if !P_OK {
                match r { Err(FsUsizeSan3ValParseError::Parse(e)) => assert!(e == parse_err_usize(), "Parse carries the inner parser's error unchanged"), _ => assert!(false, "inner parse failure must yield the Parse error") }
            } else {
                let expect = ref_fs_usize_san3_val::try_new(P_VAL_USIZE);
                match (r, expect) {
                    (Ok(v), Ok(e)) => assert!(v.into_inner() == e, "from_str yields what the constructor yields for the parsed value"),
                    (Err(FsUsizeSan3ValParseError::Validate(e1)), Err(e2)) => assert!(e1 == e2, "Validate carries the constructor's error"),
                    _ => assert!(false, "from_str must agree with the constructor on the parsed value"),
                }
            }
        }

        kani::cover!(true, "reached");
    }
    #[kani::proof]
    #[kani::stub(<usize as ::core::str::FromStr>::from_str, stub_parse_usize)]
    fn k_fs_usize_san3_nov__FromStr__from_str() {
        unsafe { P_OK = kani::any(); P_VAL_USIZE = kani::any(); P_ERR_SEL = kani::any(); P_CALLS = 0; }
        let s: &str = " \u{a0}7x \n";
        let r = <FsUsizeSan3Nov as ::core::str::FromStr>::from_str(s);
        unsafe {
            assert!(P_CALLS == 1, "the inner type's FromStr is invoked exactly once");
            assert!(P_PTR == s.as_ptr() as usize && P_LEN == s.len(), "the inner parser receives exactly the given string (not a trimmed / altered one)");
            if !P_OK {
                match r { Err(FsUsizeSan3NovParseError::Parse(e)) => assert!(e == parse_err_usize(), "Parse carries the inner parser's error unchanged"), _ => assert!(false, "inner parse failure must yield the Parse error") }
            } else {
                match r { Ok(v) => assert!(v.into_inner() == ref_fs_usize_san3_nov::sanitize(P_VAL_USIZE), "from_str yields new(parsed)"), _ => assert!(false, "from_str of a parsable string must be Ok") }
            }
        }

        kani::cover!(true, "reached");
    }
    #[kani::proof]
    #[kani::stub(<f32 as ::core::str::FromStr>::from_str, stub_parse_f32)]
    fn k_fs_f32_nov__FromStr__from_str() {
        unsafe { P_OK = kani::any(); P_VAL_F32 = kani::any(); P_ERR_SEL = kani::any(); P_CALLS = 0; }
        let s: &str = " \u{a0}7x \n";
        let r = <FsF32Nov as ::core::str::FromStr>::from_str(s);
        unsafe {
            assert!(P_CALLS == 1, "the inner type's FromStr is invoked exactly once");
            assert!(P_PTR == s.as_ptr() as usize && P_LEN == s.len(), "the inner parser receives exactly the given string (not a trimmed / altered one)");
            if !P_OK {
                match r { Err(FsF32NovParseError::Parse(e)) => assert!(e == parse_err_f32(), "Parse carries the inner parser's error unchanged"), _ => assert!(false, "inner parse failure must yield the Parse error") }
            } else {
                match r { Ok(v) => assert!(v.into_inner().to_bits() == ref_fs_f32_nov::sanitize(P_VAL_F32).to_bits(), "from_str yields new(parsed)"), _ => assert!(false, "from_str of a parsable string must be Ok") }
            }
        }

        kani::cover!(true, "reached");
    }
    #[kani::proof]
    #[kani::stub(<f32 as ::core::str::FromStr>::from_str, stub_parse_f32)]
    fn k_fs_f32_val__FromStr__from_str() {
        unsafe { SYM_LO_F32 = kani::any(); }
        unsafe { SYM_HI_F32 = kani::any(); }
        unsafe { P_OK = kani::any(); P_VAL_F32 = kani::any(); P_ERR_SEL = kani::any(); P_CALLS = 0; }
        let s: &str = " \u{a0}7x \n";
        let r = <FsF32Val as ::core::str::FromStr>::from_str(s);
        unsafe {
            assert!(P_CALLS == 1, "the inner type's FromStr is invoked exactly once");
            assert!(P_PTR == s.as_ptr() as usize && P_LEN == s.len(), "the inner parser receives exactly the given string (not a trimmed / altered one)");
            if !P_OK {
                match r { Err(FsF32ValParseError::Parse(e)) => assert!(e == parse_err_f32(), "Parse carries the inner parser's error unchanged"), _ => assert!(false, "inner parse failure must yield the Parse error") }
            } else {
                let expect = ref_fs_f32_val::try_new(P_VAL_F32);
                match (r, expect) {
                    (Ok(v), Ok(e)) => assert!(v.into_inner().to_bits() == e.to_bits(), "from_str yields what the constructor yields for the parsed value"),
                    (Err(FsF32ValParseError::Validate(e1)), Err(e2)) => assert!(e1 == e2, "Validate carries the constructor's error"),
                    _ => assert!(false, "from_str must agree with the constructor on the parsed value"),
                }
            }
        }

        kani::cover!(true, "reached");
    }
    #[kani::proof]
    #[kani::stub(<f32 as ::core::str::FromStr>::from_str, stub_parse_f32)]
    fn k_fs_f32_san_val__FromStr__from_str() {
        unsafe { SYM_LO_F32 = kani::any(); }
        unsafe { SYM_HI_F32 = kani::any(); }
        unsafe { P_OK = kani::any(); P_VAL_F32 = kani::any(); P_ERR_SEL = kani::any(); P_CALLS = 0; }
        let s: &str = " \u{a0}7x \n";
        let r = <FsF32SanVal as ::core::str::FromStr>::from_str(s);
        unsafe {
            assert!(P_CALLS == 1, "the inner type's FromStr is invoked exactly once");
            assert!(P_PTR == s.as_ptr() as usize && P_LEN == s.len(), "the inner parser receives exactly the given string (not a trimmed / altered one)");
            if !P_OK {
                match r { Err(FsF32SanValParseError::Parse(e)) => assert!(e == parse_err_f32(), "Parse carries the inner parser's error unchanged"), _ => assert!(false, "inner parse failure must yield the Parse error") }
            } else {
                let expect = ref_fs_f32_san_val::try_new(P_VAL_F32);
                match (r, expect) {
                    (Ok(v), Ok(e)) => assert!(v.into_inner().to_bits() == e.to_bits(), "from_str yields what the constructor yields for the parsed value"),
                    (Err(FsF32SanValParseError::Validate(e1)), Err(e2)) => assert!(e1 == e2, "Validate carries the constructor's error"),
                    _ => assert!(false, "from_str must agree with the constructor on the parsed value"),
                }
            }
        }

        kani::cover!(true, "reached");
    }
    #[kani::proof]
    #[kani::stub(<f32 as ::core::str::FromStr>::from_str, stub_parse_f32)]
    fn k_fs_f32_san_nov__FromStr__from_str() {
        unsafe { P_OK = kani::any(); P_VAL_F32 = kani::any(); P_ERR_SEL = kani::any(); P_CALLS = 0; }
        let s: &str = " \u{a0}7x \n";
        let r = <FsF32SanNov as ::core::str::FromStr>::from_str(s);
        unsafe {
            assert!(P_CALLS == 1, "the inner type's FromStr is invoked exactly once");
            assert!(P_PTR == s.as_ptr() as usize && P_LEN == s.len(), "the inner parser receives exactly the given string (not a trimmed / altered one)");
            if !P_OK {
                match r { Err(FsF32SanNovParseError::Parse(e)) => assert!(e == parse_err_f32(), "Parse carries the inner parser's error unchanged"), _ => assert!(false, "inner parse failure must yield the Parse error") }
            } else {
                match r { Ok(v) => assert!(v.into_inner().to_bits() == ref_fs_f32_san_nov::sanitize(P_VAL_F32).to_bits(), "from_str yields new(parsed)"), _ => assert!(false, "from_str of a parsable string must be Ok") }
            }
        }

        kani::cover!(true, "reached");
    }
    #[kani::proof]
    #[kani::stub(<f32 as ::core::str::FromStr>::from_str, stub_parse_f32)]
    fn k_fs_f32_custom__FromStr__from_str() {
        unsafe { P_OK = kani::any(); P_VAL_F32 = kani::any(); P_ERR_SEL = kani::any(); P_CALLS = 0; }
        let s: &str = " \u{a0}7x \n";
        let r = <FsF32Custom as ::core::str::FromStr>::from_str(s);
        unsafe {
            assert!(P_CALLS == 1, "the inner type's FromStr is invoked exactly once");
            assert!(P_PTR == s.as_ptr() as usize && P_LEN == s.len(), "the inner parser receives exactly the given string (not a trimmed / altered one)");
            if !P_OK {
                match r { Err(FsF32CustomParseError::Parse(e)) => assert!(e == parse_err_f32(), "Parse carries the inner parser's error unchanged"), _ => assert!(false, "inner parse failure must yield the Parse error") }
            } else {
                let expect = ref_fs_f32_custom::try_new(P_VAL_F32);
                match (r, expect) {
                    (Ok(v), Ok(e)) => assert!(v.into_inner().to_bits() == e.to_bits(), "from_str yields what the constructor yields for the parsed value"),
                    (Err(FsF32CustomParseError::Validate(e1)), Err(e2)) => assert!(e1 == e2, "Validate carries the constructor's error"),
                    _ => assert!(false, "from_str must agree with the constructor on the parsed value"),
                }
            }
        }

        kani::cover!(true, "reached");
    }
    #[kani::proof]
    #[kani::stub(<f32 as ::core::str::FromStr>::from_str, stub_parse_f32)]
    fn k_fs_f32_san3_val__FromStr__from_str() {
        unsafe { SYM_LO_F32 = kani::any(); }
        unsafe { SYM_HI_F32 = kani::any(); }
        unsafe { P_OK = kani::any(); P_VAL_F32 = kani::any(); P_ERR_SEL = kani::any(); P_CALLS = 0; }
        let s: &str = " \u{a0}7x \n";
        let r = <FsF32San3Val as ::core::str::FromStr>::from_str(s);
        unsafe {
            assert!(P_CALLS == 1, "the inner type's FromStr is invoked exactly once");
            assert!(P_PTR == s.as_ptr() as usize && P_LEN == s.len(), "the inner parser receives exactly the given string (not a trimmed / altered one)");
            if !P_OK {
                match r { Err(FsF32San3ValParseError::Parse(e)) => assert!(e == parse_err_f32(), "Parse carries the inner parser's error unchanged"), _ => assert!(false, "inner parse failure must yield the Parse error") }
            } else {
                let expect = ref_fs_f32_san3_val::try_new(P_VAL_F32);
                match (r, expect) {
                    (Ok(v), Ok(e)) => assert!(v.into_inner().to_bits() == e.to_bits(), "from_str yields what the constructor yields for the parsed value"),
                    (Err(FsF32San3ValParseError::Validate(e1)), Err(e2)) => assert!(e1 == e2, "Validate carries the constructor's error"),
                    _ => assert!(false, "from_str must agree with the constructor on the parsed value"),
                }
            }
        }

        kani::cover!(true, "reached");
    }
    #[kani::proof]
    #[kani::stub(<f32 as ::core::str::FromStr>::from_str, stub_parse_f32)]
    fn k_fs_f32_san3_nov__FromStr__from_str() {
        unsafe { P_OK = kani::any(); P_VAL_F32 = kani::any(); P_ERR_SEL = kani::any(); P_CALLS = 0; }
        let s: &str = " \u{a0}7x \n";
        let r = <FsF32San3Nov as ::core::str::FromStr>::from_str(s);
        unsafe {
            assert!(P_CALLS == 1, "the inner type's FromStr is invoked exactly once");
            assert!(P_PTR == s.as_ptr() as usize && P_LEN == s.len(), "the inner parser receives exactly the given string (not a trimmed / altered one)");
            if !P_OK {
                match r { Err(FsF32San3NovParseError::Parse(e)) => assert!(e == parse_err_f32(), "Parse carries the inner parser's error unchanged"), _ => assert!(false, "inner parse failure must yield the Parse error") }
            } else {
                match r { Ok(v) => assert!(v.into_inner().to_bits() == ref_fs_f32_san3_nov::sanitize(P_VAL_F32).to_bits(), "from_str yields new(parsed)"), _ => assert!(false, "from_str of a parsable string must be Ok") }
            }
        }

        kani::cover!(true, "reached");
    }
    #[kani::proof]
    #[kani::stub(<f64 as ::core::str::FromStr>::from_str, stub_parse_f64)]
    fn k_fs_f64_nov__FromStr__from_str() {
        unsafe { P_OK = kani::any(); P_VAL_F64 = kani::any(); P_ERR_SEL = kani::any(); P_CALLS = 0; }
        let s: &str = " \u{a0}7x \n";
        let r = <FsF64Nov as ::core::str::FromStr>::from_str(s);
        unsafe {
            assert!(P_CALLS == 1, "the inner type's FromStr is invoked exactly once");
            assert!(P_PTR == s.as_ptr() as usize && P_LEN == s.len(), "the inner parser receives exactly the given string (not a trimmed / altered one)");
            if !P_OK {
                match r { Err(FsF64NovParseError::Parse(e)) => assert!(e == parse_err_f64(), "Parse carries the inner parser's error unchanged"), _ => assert!(false, "inner parse failure must yield the Parse error") }
            } else {
                match r { Ok(v) => assert!(v.into_inner().to_bits() == ref_fs_f64_nov::sanitize(P_VAL_F64).to_bits(), "from_str yields new(parsed)"), _ => assert!(false, "from_str of a parsable string must be Ok") }
            }
        }

        kani::cover!(true, "reached");
    }
    #[kani::proof]
    #[kani::stub(<f64 as ::core::str::FromStr>::from_str, stub_parse_f64)]
    fn k_fs_f64_val__FromStr__from_str() {
        unsafe { SYM_LO_F64 = kani::any(); }
        unsafe { SYM_HI_F64 = kani::any(); }
        unsafe { P_OK = kani::any(); P_VAL_F64 = kani::any(); P_ERR_SEL = kani::any(); P_CALLS = 0; }
        let s: &str = " \u{a0}7x \n";
        let r = <FsF64Val as ::core::str::FromStr>::from_str(s);
        unsafe {
            assert!(P_CALLS == 1, "the inner type's FromStr is invoked exactly once");
            assert!(P_PTR == s.as_ptr() as usize && P_LEN == s.len(), "the inner parser receives exactly the given string (not a trimmed / altered one)");
            if !P_OK {
                match r { Err(FsF64ValParseError::Parse(e)) => assert!(e == parse_err_f64(), "Parse carries the inner parser's error unchanged"), _ => assert!(false, "inner parse failure must yield the Parse error") }
            } else {
                let expect = ref_fs_f64_val::try_new(P_VAL_F64);
                match (r, expect) {
                    (Ok(v), Ok(e)) => assert!(v.into_inner().to_bits() == e.to_bits(), "from_str yields what the constructor yields for the parsed value"),
                    (Err(FsF64ValParseError::Validate(e1)), Err(e2)) => assert!(e1 == e2, "Validate carries the constructor's error"),
                    _ => assert!(false, "from_str must agree with the constructor on the parsed value"),
                }
            }
        }

        kani::cover!(true, "reached");
    }
    #[kani::proof]
    #[kani::stub(<f64 as ::core::str::FromStr>::from_str, stub_parse_f64)]
    fn k_fs_f64_san_val__FromStr__from_str() {
        unsafe { SYM_LO_F64 = kani::any(); }
        unsafe { SYM_HI_F64 = kani::any(); }
        unsafe { P_OK = kani::any(); P_VAL_F64 = kani::any(); P_ERR_SEL = kani::any(); P_CALLS = 0; }
        let s: &str = " \u{a0}7x \n";
        let r = <FsF64SanVal as ::core::str::FromStr>::from_str(s);
        unsafe {
            assert!(P_CALLS == 1, "the inner type's FromStr is invoked exactly once");
            assert!(P_PTR == s.as_ptr() as usize && P_LEN == s.len(), "the inner parser receives exactly the given string (not a trimmed / altered one)");
            if !P_OK {
                match r { Err(FsF64SanValParseError::Parse(e)) => assert!(e == parse_err_f64(), "Parse carries the inner parser's error unchanged"), _ => assert!(false, "inner parse failure must yield the Parse error") }
            } else {
                let expect = ref_fs_f64_san_val::try_new(P_VAL_F64);
                match (r, expect) {
                    (Ok(v), Ok(e)) => assert!(v.into_inner().to_bits() == e.to_bits(), "from_str yields what the constructor yields for the parsed value"),
                    (Err(FsF64SanValParseError::Validate(e1)), Err(e2)) => assert!(e1 == e2, "Validate carries the constructor's error"),
                    _ => assert!(false, "from_str must agree with the constructor on the parsed value"),
                }
            }
        }

        kani::cover!(true, "reached");
    }
    #[kani::proof]
    #[kani::stub(<f64 as ::core::str::FromStr>::from_str, stub_parse_f64)]
    fn k_fs_f64_san_nov__FromStr__from_str() {
        unsafe { P_OK = kani::any(); P_VAL_F64 = kani::any(); P_ERR_SEL = kani::any(); P_CALLS = 0; }
        let s: &str = " \u{a0}7x \n";
        let r = <FsF64SanNov as ::core::str::FromStr>::from_str(s);
        unsafe {
            assert!(P_CALLS == 1, "the inner type's FromStr is invoked exactly once");
            assert!(P_PTR == s.as_ptr() as usize && P_LEN == s.len(), "the inner parser receives exactly the given string (not a trimmed / altered one)");
            if !P_OK {
                match r { Err(FsF64SanNovParseError::Parse(e)) => assert!(e == parse_err_f64(), "Parse carries the inner parser's error unchanged"), _ => assert!(false, "inner parse failure must yield the Parse error") }
            } else {
                match r { Ok(v) => assert!(v.into_inner().to_bits() == ref_fs_f64_san_nov::sanitize(P_VAL_F64).to_bits(), "from_str yields new(parsed)"), _ => assert!(false, "from_str of a parsable string must be Ok") }
            }
        }

        kani::cover!(true, "reached");
    }
    #[kani::proof]
    #[kani::stub(<f64 as ::core::str::FromStr>::from_str, stub_parse_f64)]
    fn k_fs_f64_custom__FromStr__from_str() {
        unsafe { P_OK = kani::any(); P_VAL_F64 = kani::any(); P_ERR_SEL = kani::any(); P_CALLS = 0; }
        let s: &str = " \u{a0}7x \n";
        let r = <FsF64Custom as ::core::str::FromStr>::from_str(s);
        unsafe {
            assert!(P_CALLS == 1, "the inner type's FromStr is invoked exactly once");
            assert!(P_PTR == s.as_ptr() as usize && P_LEN == s.len(), "the inner parser receives exactly the given string (not a trimmed / altered one)");
            if !P_OK {
                match r { Err(FsF64CustomParseError::Parse(e)) => assert!(e == parse_err_f64(), "Parse carries the inner parser's error unchanged"), _ => assert!(false, "inner parse failure must yield the Parse error") }
            } else {
                let expect = ref_fs_f64_custom::try_new(P_VAL_F64);
                match (r, expect) {
                    (Ok(v), Ok(e)) => assert!(v.into_inner().to_bits() == e.to_bits(), "from_str yields what the constructor yields for the parsed value"),
                    (Err(FsF64CustomParseError::Validate(e1)), Err(e2)) => assert!(e1 == e2, "Validate carries the constructor's error"),
                    _ => assert!(false, "from_str must agree with the constructor on the parsed value"),
                }
            }
        }

        kani::cover!(true, "reached");
    }
    #[kani::proof]
    #[kani::stub(<f64 as ::core::str::FromStr>::from_str, stub_parse_f64)]
    fn k_fs_f64_san3_val__FromStr__from_str() {
        unsafe { SYM_LO_F64 = kani::any(); }
        unsafe { SYM_HI_F64 = kani::any(); }
        unsafe { P_OK = kani::any(); P_VAL_F64 = kani::any(); P_ERR_SEL = kani::any(); P_CALLS = 0; }
        let s: &str = " \u{a0}7x \n";
        let r = <FsF64San3Val as ::core::str::FromStr>::from_str(s);
        unsafe {
            assert!(P_CALLS == 1, "the inner type's FromStr is invoked exactly once");
            assert!(P_PTR == s.as_ptr() as usize && P_LEN == s.len(), "the inner parser receives exactly the given string (not a trimmed / altered one)");
            if !P_OK {
                match r { Err(FsF64San3ValParseError::Parse(e)) => assert!(e == parse_err_f64(), "Parse carries the inner parser's error unchanged"), _ => assert!(false, "inner parse failure must yield the Parse error") }
            } else {
                let expect = ref_fs_f64_san3_val::try_new(P_VAL_F64);
                match (r, expect) {
                    (Ok(v), Ok(e)) => assert!(v.into_inner().to_bits() == e.to_bits(), "from_str yields what the constructor yields for the parsed value"),
                    (Err(FsF64San3ValParseError::Validate(e1)), Err(e2)) => assert!(e1 == e2, "Validate carries the constructor's error"),
                    _ => assert!(false, "from_str must agree with the constructor on the parsed value"),
                }
            }
        }

        kani::cover!(true, "reached");
    }
    #[kani::proof]
    #[kani::stub(<f64 as ::core::str::FromStr>::from_str, stub_parse_f64)]
    fn k_fs_f64_san3_nov__FromStr__from_str() {
        unsafe { P_OK = kani::any(); P_VAL_F64 = kani::any(); P_ERR_SEL = kani::any(); P_CALLS = 0; }
        let s: &str = " \u{a0}7x \n";
        let r = <FsF64San3Nov as ::core::str::FromStr>::from_str(s);
        unsafe {
            assert!(P_CALLS == 1, "the inner type's FromStr is invoked exactly once");
            assert!(P_PTR == s.as_ptr() as usize && P_LEN == s.len(), "the inner parser receives exactly the given string (not a trimmed / altered one)");
            if !P_OK {
                match r { Err(FsF64San3NovParseError::Parse(e)) => assert!(e == parse_err_f64(), "Parse carries the inner parser's error unchanged"), _ => assert!(false, "inner parse failure must yield the Parse error") }
            } else {
                match r { Ok(v) => assert!(v.into_inner().to_bits() == ref_fs_f64_san3_nov::sanitize(P_VAL_F64).to_bits(), "from_str yields new(parsed)"), _ => assert!(false, "from_str of a parsable string must be Ok") }
            }
        }

        kani::cover!(true, "reached");
    }
    #[kani::proof]
    fn k_fs_point_nov__FromStr__from_str() {
        unsafe { PT_PARSE_OK = kani::any(); PT_PARSE_VAL = Point { x: kani::any(), y: kani::any() }; PT_PARSE_ERR = if kani::any() { MyErr::Bad } else { MyErr::Worse }; PT_CALLS = 0; }
        let s: &str = " \u{a0}7x \n";
        let r = <FsPointNov as ::core::str::FromStr>::from_str(s);
        unsafe {
            assert!(PT_CALLS == 1, "the inner type's FromStr is invoked exactly once");
            assert!(PT_PTR == s.as_ptr() as usize && PT_LEN == s.len(), "the inner parser receives exactly the given string (not a trimmed / altered one)");
            if !PT_PARSE_OK {
                match r { Err(FsPointNovParseError::Parse(e)) => assert!(e == PT_PARSE_ERR, "Parse carries the inner parser's error unchanged"), _ => assert!(false, "inner parse failure must yield the Parse error") }
            } else {
                match r { Ok(v) => assert!(v.into_inner() == ref_fs_point_nov::sanitize(PT_PARSE_VAL), "from_str yields new(parsed)"), _ => assert!(false, "from_str of a parsable string must be Ok") }
            }
        }

        kani::cover!(true, "reached");
    }
    #[kani::proof]
    fn k_fs_point_san_pred__FromStr__from_str() {
        unsafe { PT_PARSE_OK = kani::any(); PT_PARSE_VAL = Point { x: kani::any(), y: kani::any() }; PT_PARSE_ERR = if kani::any() { MyErr::Bad } else { MyErr::Worse }; PT_CALLS = 0; }
        let s: &str = " \u{a0}7x \n";
        let r = <FsPointSanPred as ::core::str::FromStr>::from_str(s);
        unsafe {
            assert!(PT_CALLS == 1, "the inner type's FromStr is invoked exactly once");
            assert!(PT_PTR == s.as_ptr() as usize && PT_LEN == s.len(), "the inner parser receives exactly the given string (not a trimmed / altered one)");
            if !PT_PARSE_OK {
                match r { Err(FsPointSanPredParseError::Parse(e)) => assert!(e == PT_PARSE_ERR, "Parse carries the inner parser's error unchanged"), _ => assert!(false, "inner parse failure must yield the Parse error") }
            } else {
                let expect = ref_fs_point_san_pred::try_new(PT_PARSE_VAL);
                match (r, expect) {
                    (Ok(v), Ok(e)) => assert!(v.into_inner() == e, "from_str yields what the constructor yields for the parsed value"),
                    (Err(FsPointSanPredParseError::Validate(e1)), Err(e2)) => assert!(e1 == e2, "Validate carries the constructor's error"),
                    _ => assert!(false, "from_str must agree with the constructor on the parsed value"),
                }
            }
        }

        kani::cover!(true, "reached");
    }
    #[kani::proof]
    fn k_fs_point_san_nov__FromStr__from_str() {
        unsafe { PT_PARSE_OK = kani::any(); PT_PARSE_VAL = Point { x: kani::any(), y: kani::any() }; PT_PARSE_ERR = if kani::any() { MyErr::Bad } else { MyErr::Worse }; PT_CALLS = 0; }
        let s: &str = " \u{a0}7x \n";
        let r = <FsPointSanNov as ::core::str::FromStr>::from_str(s);
        unsafe {
            assert!(PT_CALLS == 1, "the inner type's FromStr is invoked exactly once");
            assert!(PT_PTR == s.as_ptr() as usize && PT_LEN == s.len(), "the inner parser receives exactly the given string (not a trimmed / altered one)");
            if !PT_PARSE_OK {
                match r { Err(FsPointSanNovParseError::Parse(e)) => assert!(e == PT_PARSE_ERR, "Parse carries the inner parser's error unchanged"), _ => assert!(false, "inner parse failure must yield the Parse error") }
            } else {
                match r { Ok(v) => assert!(v.into_inner() == ref_fs_point_san_nov::sanitize(PT_PARSE_VAL), "from_str yields new(parsed)"), _ => assert!(false, "from_str of a parsable string must be Ok") }
            }
        }

        kani::cover!(true, "reached");
    }
    #[kani::proof]
    #[kani::stub(<i32 as ::core::str::FromStr>::from_str, stub_parse_i32)]
    fn k_fs_gen_nov__FromStr__from_str() {
        unsafe { P_OK = kani::any(); P_VAL_I32 = kani::any(); P_ERR_SEL = kani::any(); P_CALLS = 0; }
        let s: &str = " \u{a0}7x \n";
        let r = <FsGenNov::<i32> as ::core::str::FromStr>::from_str(s);
        unsafe {
            assert!(P_CALLS == 1, "the inner type's FromStr is invoked exactly once");
            assert!(P_PTR == s.as_ptr() as usize && P_LEN == s.len(), "the inner parser receives exactly the given string (not a trimmed / altered one)");
            if !P_OK {
                match r { Err(FsGenNovParseError::Parse(e)) => assert!(e == parse_err_i32(), "Parse carries the inner parser's error unchanged"), _ => assert!(false, "inner parse failure must yield the Parse error") }
            } else {
                match r { Ok(v) => assert!(v.into_inner() == ref_fs_gen_nov::sanitize(P_VAL_I32), "from_str yields new(parsed)"), _ => assert!(false, "from_str of a parsable string must be Ok") }
            }
        }

        kani::cover!(true, "reached");
    }
    #[kani::proof]
    #[kani::stub(<i32 as ::core::str::FromStr>::from_str, stub_parse_i32)]
    fn k_fs_gen_san_nov__FromStr__from_str() {
        unsafe { P_OK = kani::any(); P_VAL_I32 = kani::any(); P_ERR_SEL = kani::any(); P_CALLS = 0; }
        let s: &str = " \u{a0}7x \n";
        let r = <FsGenSanNov::<i32> as ::core::str::FromStr>::from_str(s);
        unsafe {
            assert!(P_CALLS == 1, "the inner type's FromStr is invoked exactly once");
            assert!(P_PTR == s.as_ptr() as usize && P_LEN == s.len(), "the inner parser receives exactly the given string (not a trimmed / altered one)");
            if !P_OK {
                match r { Err(FsGenSanNovParseError::Parse(e)) => assert!(e == parse_err_i32(), "Parse carries the inner parser's error unchanged"), _ => assert!(false, "inner parse failure must yield the Parse error") }
            } else {
                match r { Ok(v) => assert!(v.into_inner() == ref_fs_gen_san_nov::sanitize(P_VAL_I32), "from_str yields new(parsed)"), _ => assert!(false, "from_str of a parsable string must be Ok") }
            }
        }

        kani::cover!(true, "reached");
    }
    #[kani::proof]
    #[kani::stub(<i32 as ::core::str::FromStr>::from_str, stub_parse_i32)]
    fn k_fs_gen_san_pred__FromStr__from_str() {
        unsafe { P_OK = kani::any(); P_VAL_I32 = kani::any(); P_ERR_SEL = kani::any(); P_CALLS = 0; }
        let s: &str = " \u{a0}7x \n";
        let r = <FsGenSanPred::<i32> as ::core::str::FromStr>::from_str(s);
        unsafe {
            assert!(P_CALLS == 1, "the inner type's FromStr is invoked exactly once");
            assert!(P_PTR == s.as_ptr() as usize && P_LEN == s.len(), "the inner parser receives exactly the given string (not a trimmed / altered one)");
            if !P_OK {
                match r { Err(FsGenSanPredParseError::Parse(e)) => assert!(e == parse_err_i32(), "Parse carries the inner parser's error unchanged"), _ => assert!(false, "inner parse failure must yield the Parse error") }
            } else {
                let expect = ref_fs_gen_san_pred::try_new(P_VAL_I32);
                match (r, expect) {
                    (Ok(v), Ok(e)) => assert!(v.into_inner() == e, "from_str yields what the constructor yields for the parsed value"),
                    (Err(FsGenSanPredParseError::Validate(e1)), Err(e2)) => assert!(e1 == e2, "Validate carries the constructor's error"),
                    _ => assert!(false, "from_str must agree with the constructor on the parsed value"),
                }
            }
        }

        kani::cover!(true, "reached");
    }
    #[kani::proof]
    #[kani::stub(<i32 as ::core::str::FromStr>::from_str, stub_parse_i32)]
    fn k_fs_gen_custom__FromStr__from_str() {
        unsafe { P_OK = kani::any(); P_VAL_I32 = kani::any(); P_ERR_SEL = kani::any(); P_CALLS = 0; }
        let s: &str = " \u{a0}7x \n";
        let r = <FsGenCustom::<i32> as ::core::str::FromStr>::from_str(s);
        unsafe {
            assert!(P_CALLS == 1, "the inner type's FromStr is invoked exactly once");
            assert!(P_PTR == s.as_ptr() as usize && P_LEN == s.len(), "the inner parser receives exactly the given string (not a trimmed / altered one)");
            if !P_OK {
                match r { Err(FsGenCustomParseError::Parse(e)) => assert!(e == parse_err_i32(), "Parse carries the inner parser's error unchanged"), _ => assert!(false, "inner parse failure must yield the Parse error") }
            } else {
                let expect = ref_fs_gen_custom::try_new(P_VAL_I32);
                match (r, expect) {
                    (Ok(v), Ok(e)) => assert!(v.into_inner() == e, "from_str yields what the constructor yields for the parsed value"),
                    (Err(FsGenCustomParseError::Validate(e1)), Err(e2)) => assert!(e1 == e2, "Validate carries the constructor's error"),
                    _ => assert!(false, "from_str must agree with the constructor on the parsed value"),
                }
            }
        }

        kani::cover!(true, "reached");
    }
}
